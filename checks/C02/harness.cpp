// C02: device memory behaves like an aliased byte array; misuse raises errors.  System for E1 histbfs.
//
// Reference model: buffers are vectors of bytes (-1 = never written, content unknown), a memory is a view
// (buffer, byte offset, byte size, dtype); slices/casts/offsets alias, clones do not.  After every operation
// every live memory is read back completely (copyTo and through ptr()) and compared.  A request the property
// calls invalid (out of range, negative, uninitialised operand) must throw occa::exception and change nothing.
#include <map>
#include <set>
#include <algorithm>
#include <unistd.h>
#include <occa.hpp>
#include <occa/internal/core/buffer.hpp>
#include <occa/internal/core/memory.hpp>
#include "histbfs_fork.hpp"

enum { MALLOC = 1, WRAP, SLICE, OFFSET, CAST, CLONE, CPF_HOST, CPT_HOST, CPF_MEM, CPT_MEM, FREE, NOPS };
static const char *ON[] = {"?", "malloc", "wrapMemory", "slice", "offset", "cast", "clone", "copyFrom-host", "copyTo-host",
                           "copyFrom-mem", "copyTo-mem", "free"};

static const int NV = 3;
static const int DSZ[3] = {1, 4, 3};
static const char *DTN[3] = {"byte", "int32", "t3"};
static occa::dtype_t T3("t3", 3);
static const occa::dtype_t &dtypeOf(int d) { return d == 0 ? occa::dtype::byte : d == 1 ? occa::dtype::int32 : T3; }

// symbolic argument domains (N = length of the memory the argument refers to)
enum { C_M2 = 0, C_M1, C_0, C_1, C_2, C_N1, NCNT };     // count: -2, -1 (= all), 0, 1, 2, N+1
enum { O_M1 = 0, O_0, O_1, O_2, O_N, NOFF };            // offset: -1, 0, 1, 2, N
static const char *CNTN[] = {"-2", "-1", "0", "1", "2", "N+1"};
static const char *OFFN[] = {"-1", "0", "1", "2", "N"};
static long cntVal(int c, long n) { static const long v[] = {-2, -1, 0, 1, 2}; return c == C_N1 ? n + 1 : v[c]; }
static long offVal(int o, long n) { static const long v[] = {-1, 0, 1, 2}; return o == O_N ? n : v[o]; }

struct Shape { int entries, dt; };
static const Shape SHAPES_FULL[] = {{0, 0}, {1, 0}, {4, 0}, {8, 0}, {0, 1}, {1, 1}, {2, 1}, {1, 2}, {2, 2}, {-1, 0}};
static const int CORE_SHAPES[] = {0, 2, 6, 8};
static const Shape WRAPS_FULL[] = {{4, 0}, {2, 1}, {0, 0}, {2, 2}};

static int FULL_AT = -1;                 // history length at which the full alphabet is used (-1: never)
static std::string MODE = "Serial";

static occa::device &dev() {
  static occa::device *d = new occa::device({{"mode", MODE}});
  return *d;
}

struct Buf { std::vector<int> data; bool wrapped = false; unsigned char *host = NULL; };
struct View { int buf; long off, bytes; int dt; long len() const { return bytes / DSZ[dt]; } };

struct MSys {
  hb::Ctx &ctx;
  occa::memory *v[NV];
  std::vector<Buf> bufs;
  std::vector<View> views;
  int var[NV];             // view id or -1 (uninitialised / freed)
  std::vector<unsigned char*> hostBlocks;
  int writes = 0, steps = 0;

  MSys(hb::Ctx &c) : ctx(c) {
    alarm(20);   // watchdog: a history takes milliseconds
    dev();
    for (int i = 0; i < NV; ++i) { v[i] = new occa::memory(); var[i] = -1; }
  }
  ~MSys() {
    if (ctx.fails.empty()) {
      for (int i = 0; i < NV; ++i) delete v[i];
      for (unsigned char *p : hostBlocks) delete[] p;
    }
    alarm(0);
  }

  unsigned char pat(int p) const { return (unsigned char) (16 * writes + p + 1); }
  unsigned char *hostBlock(long n) { unsigned char *p = new unsigned char[n > 0 ? n : 0]; hostBlocks.push_back(p); return p; }
  long lenOf(int i) const { return var[i] < 0 ? 0 : views[var[i]].len(); }

  //---[ alphabet ]----------------------------------------------------------------------------
  static std::string kindName(const hb::Op &o) { return (o.k > 0 && o.k < NOPS) ? ON[o.k] : "?"; }
  static std::string crashSig(const hb::Op &o, const std::string &cls) { return "crash:" + cls + ":" + kindName(o); }
  static std::string name(const hb::Op &o) {
    char b[128];
    switch (o.k) {
    case MALLOC: snprintf(b, sizeof b, "m%d=malloc(%d,%s,%s)", o.a, SHAPES_FULL[o.b].entries, DTN[SHAPES_FULL[o.b].dt], o.c ? "init" : "noinit"); break;
    case WRAP: snprintf(b, sizeof b, "m%d=wrapMemory(host,%d,%s)", o.a, WRAPS_FULL[o.b].entries, DTN[WRAPS_FULL[o.b].dt]); break;
    case SLICE: snprintf(b, sizeof b, "m%d=m%d.slice(%s,%s)", o.a, o.b, OFFN[o.c / 10], CNTN[o.c % 10]); break;
    case OFFSET: snprintf(b, sizeof b, "m%d=m%d+%s", o.a, o.b, OFFN[o.c]); break;
    case CAST: snprintf(b, sizeof b, "m%d=m%d.cast(%s)", o.a, o.b, DTN[o.c]); break;
    case CLONE: snprintf(b, sizeof b, "m%d=m%d.clone()", o.a, o.b); break;
    case CPF_HOST: snprintf(b, sizeof b, "m%d.copyFrom(host,%s,%s)", o.a, CNTN[o.b], OFFN[o.c]); break;
    case CPT_HOST: snprintf(b, sizeof b, "m%d.copyTo(host,%s,%s)", o.a, CNTN[o.b], OFFN[o.c]); break;
    case CPF_MEM: snprintf(b, sizeof b, "m%d.copyFrom(m%d,%s,d%s,s%s)", o.a, o.b, CNTN[o.c / 100], OFFN[(o.c / 10) % 10], OFFN[o.c % 10]); break;
    case CPT_MEM: snprintf(b, sizeof b, "m%d.copyTo(m%d,%s,d%s,s%s)", o.a, o.b, CNTN[o.c / 100], OFFN[(o.c / 10) % 10], OFFN[o.c % 10]); break;
    case FREE: snprintf(b, sizeof b, "m%d.free()", o.a); break;
    default: snprintf(b, sizeof b, "?");
    }
    return b;
  }

  std::vector<hb::Op> enabled() {
    std::vector<hb::Op> r;
    const bool full = (steps == FULL_AT);
    if (FULL_AT >= 0 && steps > FULL_AT) return r;
    if (full) {
      for (int i = 0; i < NV; ++i) {
        for (int s = 0; s < 10; ++s) for (int init = 0; init < 2; ++init) r.push_back(hb::Op(MALLOC, i, s, init));
        for (int s = 0; s < 4; ++s) r.push_back(hb::Op(WRAP, i, s));
        for (int j = 0; j < NV; ++j) {
          for (int o = 0; o < NOFF; ++o) for (int c = 0; c < NCNT; ++c) r.push_back(hb::Op(SLICE, i, j, o * 10 + c));
          for (int o = 0; o < NOFF; ++o) r.push_back(hb::Op(OFFSET, i, j, o));
          for (int d = 0; d < 3; ++d) r.push_back(hb::Op(CAST, i, j, d));
          r.push_back(hb::Op(CLONE, i, j));
          for (int c = 0; c < NCNT; ++c) for (int d = 0; d < NOFF; ++d) for (int s = 0; s < NOFF; ++s) {
            if (d == O_2 || s == O_2) continue;
            r.push_back(hb::Op(CPF_MEM, i, j, c * 100 + d * 10 + s));
            r.push_back(hb::Op(CPT_MEM, i, j, c * 100 + d * 10 + s));
          }
        }
        for (int c = 0; c < NCNT; ++c) for (int o = 0; o < NOFF; ++o) {
          r.push_back(hb::Op(CPF_HOST, i, c, o));
          r.push_back(hb::Op(CPT_HOST, i, c, o));
        }
        r.push_back(hb::Op(FREE, i));
      }
      return r;
    }
    // core alphabet: representative arguments, results go to the operand itself or to the next variable
    for (int i = 0; i < NV; ++i) {
      for (int s : CORE_SHAPES) r.push_back(hb::Op(MALLOC, i, s, 1));
      r.push_back(hb::Op(MALLOC, i, 2, 0));
      r.push_back(hb::Op(WRAP, i, 0));
      r.push_back(hb::Op(CPF_HOST, i, C_M1, O_0));
      r.push_back(hb::Op(CPF_HOST, i, C_1, O_1));
      r.push_back(hb::Op(CPT_HOST, i, C_2, O_1));
      r.push_back(hb::Op(FREE, i));
    }
    for (int j = 0; j < NV; ++j) for (int t = 0; t < 2; ++t) {
      const int i = (j + t) % NV;
      static const int SL[][2] = {{O_1, C_M1}, {O_0, C_2}, {O_1, C_1}, {O_M1, C_1}, {O_2, C_0}};
      for (auto &s : SL) r.push_back(hb::Op(SLICE, i, j, s[0] * 10 + s[1]));
      for (int d = 0; d < 3; ++d) r.push_back(hb::Op(CAST, i, j, d));
      r.push_back(hb::Op(CLONE, i, j));
    }
    for (int i = 0; i < NV; ++i) for (int j = 0; j < NV; ++j) {
      static const int CP[][3] = {{C_M1, O_0, O_0}, {C_1, O_1, O_0}, {C_1, O_0, O_1}, {C_2, O_0, O_0}};
      for (auto &c : CP) {
        if (i == j && c[1] == c[2]) continue;
        r.push_back(hb::Op(CPF_MEM, i, j, c[0] * 100 + c[1] * 10 + c[2]));
        if (c[0] != C_2) r.push_back(hb::Op(CPT_MEM, i, j, c[0] * 100 + c[1] * 10 + c[2]));
      }
    }
    return r;
  }

  //---[ model helpers ]-----------------------------------------------------------------------
  int newBuf(long n) { Buf b; b.data.assign(n, -1); bufs.push_back(b); return (int) bufs.size() - 1; }
  int newView(int buf, long off, long bytes, int dt) { View w = {buf, off, bytes, dt}; views.push_back(w); return (int) views.size() - 1; }

  // verdict of one request
  struct Req {
    bool invalid = false;
    std::string why;    // first reason in fixed priority
    void bad(const std::string &w) { if (!invalid) { invalid = true; why = w; } }
  };

  void fail(const std::string &sig, const std::string &detail) { ctx.fail(sig, detail); }

  // run `call`, compare throw / no throw with the model's verdict; returns true when the call went through
  template <class F> bool attempt(const hb::Op &o, const Req &rq, F call) {
    bool threw = false;
    std::string what;
    try { call(); } catch (occa::exception &e) { threw = true; what = e.what(); }
    const std::string op = ON[o.k];
    if (rq.invalid) hbf::event("invalid:" + rq.why);
    if (rq.invalid && !threw) fail("no-throw:" + rq.why + ":" + op, "request is invalid (" + rq.why + ") but returned normally: " + name(o));
    if (!rq.invalid && threw) fail("unexpected-throw:" + op, "valid request threw: " + name(o) + " :: " + what);
    return !threw;
  }

  //---[ operations ]--------------------------------------------------------------------------
  void apply(const hb::Op &o) {
    ++steps;
    switch (o.k) {
    case MALLOC: {
      const Shape &s = SHAPES_FULL[o.b];
      const long bytes = (long) s.entries * DSZ[s.dt];
      Req rq;
      if (s.entries < 0) rq.bad("negative-count");
      unsigned char *src = NULL;
      if (o.c && bytes > 0) { ++writes; src = hostBlock(bytes); for (long p = 0; p < bytes; ++p) src[p] = pat(p); }
      occa::memory res;
      const bool ok = attempt(o, rq, [&]() {
        res = o.c ? dev().malloc(s.entries, dtypeOf(s.dt), (const void*) src) : dev().malloc(s.entries, dtypeOf(s.dt));
      });
      if (!ok || rq.invalid) break;
      *v[o.a] = res;
      if (bytes == 0) { setZero(o.a, res, s.dt); break; }
      const int b = newBuf(bytes);
      if (src) for (long p = 0; p < bytes; ++p) bufs[b].data[p] = src[p];
      var[o.a] = newView(b, 0, bytes, s.dt);
      break;
    }
    case WRAP: {
      const Shape &s = WRAPS_FULL[o.b];
      const long bytes = (long) s.entries * DSZ[s.dt];
      ++writes;
      unsigned char *h = hostBlock(bytes);
      for (long p = 0; p < bytes; ++p) h[p] = pat(p);
      occa::memory res;
      Req rq;
      const bool ok = attempt(o, rq, [&]() { res = dev().wrapMemory((const void*) h, s.entries, dtypeOf(s.dt)); });
      if (!ok) break;
      *v[o.a] = res;
      if (bytes == 0) { setZero(o.a, res, s.dt); break; }
      const int b = newBuf(bytes);
      bufs[b].wrapped = true; bufs[b].host = h;
      for (long p = 0; p < bytes; ++p) bufs[b].data[p] = h[p];
      var[o.a] = newView(b, 0, bytes, s.dt);
      hbf::event("wrapped");
      break;
    }
    case SLICE: case OFFSET: {
      const int j = o.b;
      const long n = lenOf(j);
      const long off = offVal(o.k == SLICE ? o.c / 10 : o.c, n);
      const long cnt = o.k == SLICE ? cntVal(o.c % 10, n) : -1;
      Req rq;
      if (var[j] < 0) rq.bad("uninit-receiver");
      if (off < 0) rq.bad("negative-offset");
      if (cnt < -1) rq.bad("negative-count");
      if (off > n || (cnt >= 0 && off + cnt > n)) rq.bad("out-of-range");
      occa::memory res;
      const bool ok = attempt(o, rq, [&]() { res = (o.k == SLICE) ? v[j]->slice(off, cnt) : (*v[j] + off); });
      if (!ok || rq.invalid) break;
      const View src = views[var[j]];
      const long bytes = DSZ[src.dt] * (cnt == -1 ? n - off : cnt);
      *v[o.a] = res;
      if (bytes == 0) { setZero(o.a, res, src.dt, src.buf, src.off + DSZ[src.dt] * off); break; }
      if (src.off > 0) hbf::event("slice-of-slice");
      var[o.a] = newView(src.buf, src.off + DSZ[src.dt] * off, bytes, src.dt);
      break;
    }
    case CAST: {
      const int j = o.b;
      Req rq;
      if (var[j] < 0) rq.bad("uninit-receiver");
      occa::memory res;
      const bool ok = attempt(o, rq, [&]() { res = v[j]->cast(dtypeOf(o.c)); });
      if (!ok || rq.invalid) break;
      const View src = views[var[j]];
      *v[o.a] = res;
      if (src.bytes == 0) { setZero(o.a, res, o.c, src.buf, src.off); break; }
      if (src.bytes % DSZ[o.c]) hbf::event("cast-size-not-multiple-of-dtype");
      var[o.a] = newView(src.buf, src.off, src.bytes, o.c);   // a cast shares exactly its parent's bytes
      break;
    }
    case CLONE: {
      const int j = o.b;
      Req rq;
      if (var[j] < 0) rq.bad("uninit-receiver");
      occa::memory res;
      const bool ok = attempt(o, rq, [&]() { res = v[j]->clone(); });
      if (!ok || rq.invalid) break;
      const View src = views[var[j]];
      *v[o.a] = res;
      if (src.bytes == 0) { setZero(o.a, res, src.dt); break; }
      const int b = newBuf(src.bytes);
      for (long p = 0; p < src.bytes; ++p) bufs[b].data[p] = bufs[src.buf].data[src.off + p];
      var[o.a] = newView(b, 0, src.bytes, src.dt);
      hbf::event("clone");
      break;
    }
    case CPF_HOST: case CPT_HOST: {
      const int i = o.a;
      const long n = lenOf(i);
      const long cnt = cntVal(o.b, n), off = offVal(o.c, n);
      const int dsz = var[i] < 0 ? 1 : DSZ[views[var[i]].dt];
      const long bytes = dsz * (cnt == -1 ? n : cnt);
      Req rq;
      if (var[i] < 0) rq.bad("uninit-receiver");
      if (off < 0) rq.bad("negative-offset");
      if (cnt < -1) rq.bad("negative-count");
      if (var[i] >= 0 && (dsz * off + bytes > views[var[i]].bytes)) rq.bad("out-of-range");
      // exact-size host block (what the caller promises by passing `count`), so any overrun is an ASan report
      const long hb_ = bytes > 0 ? bytes : 0;
      unsigned char *h = hostBlock(hb_);
      ++writes;
      for (long p = 0; p < hb_; ++p) h[p] = pat(p);
      std::vector<unsigned char> before(h, h + hb_);
      bool ok;
      if (o.k == CPF_HOST) ok = attempt(o, rq, [&]() { v[i]->copyFrom((const void*) h, cnt, off); });
      else ok = attempt(o, rq, [&]() { v[i]->copyTo((void*) h, cnt, off); });
      if (ok && !rq.invalid) {
        const View w = views[var[i]];
        if (o.k == CPF_HOST) {
          for (long p = 0; p < bytes; ++p) bufs[w.buf].data[w.off + dsz * off + p] = h[p];
          if (bytes) noteAliasWrite(i);
        } else {
          for (long p = 0; p < bytes; ++p) {
            const int m = bufs[w.buf].data[w.off + dsz * off + p];
            if (m >= 0 && h[p] != m) { fail("read-mismatch:copyTo-host", name(o) + ": byte " + std::to_string(p) + " is " + std::to_string(h[p]) + ", model " + std::to_string(m)); break; }
          }
          if (bytes) hbf::event("partial-read");
        }
      } else if (o.k == CPT_HOST || rq.invalid) {
        if (!std::equal(before.begin(), before.end(), h)) fail("modified-host-on-error:" + std::string(ON[o.k]), name(o));
      }
      break;
    }
    case CPF_MEM: case CPT_MEM: {
      // copyFrom: receiver = destination a, operand = source b;  copyTo: receiver = source a, operand = destination b
      const int recv = o.a, oper = o.b;
      const int d = (o.k == CPF_MEM) ? recv : oper, s = (o.k == CPF_MEM) ? oper : recv;
      const long nr = lenOf(recv);
      const long cnt = cntVal(o.c / 100, nr);
      const long dOff = offVal((o.c / 10) % 10, lenOf(d)), sOff = offVal(o.c % 10, lenOf(s));
      Req rq;
      if (var[recv] < 0 && var[oper] < 0) rq.bad("uninit-both");
      else if (var[recv] < 0) rq.bad("uninit-receiver");
      else if (var[oper] < 0) rq.bad("uninit-operand");
      if (dOff < 0 || sOff < 0) rq.bad("negative-offset");
      if (cnt < -1) rq.bad("negative-count");
      long bytes = 0, dB = 0, sB = 0;
      if (var[d] >= 0 && var[s] >= 0) {
        bytes = DSZ[views[var[recv]].dt] * (cnt == -1 ? nr : cnt);
        dB = DSZ[views[var[d]].dt] * dOff; sB = DSZ[views[var[s]].dt] * sOff;
        if (dB + bytes > views[var[d]].bytes || sB + bytes > views[var[s]].bytes) rq.bad("out-of-range");
      }
      bool ok;
      if (o.k == CPF_MEM) ok = attempt(o, rq, [&]() { v[recv]->copyFrom(*v[oper], cnt, dOff, sOff); });
      else ok = attempt(o, rq, [&]() { v[recv]->copyTo(*v[oper], cnt, dOff, sOff); });
      if (ok && !rq.invalid && bytes > 0) {
        const View dv = views[var[d]], sv = views[var[s]];
        std::vector<int> tmp(bytes);
        for (long p = 0; p < bytes; ++p) tmp[p] = bufs[sv.buf].data[sv.off + sB + p];
        for (long p = 0; p < bytes; ++p) bufs[dv.buf].data[dv.off + dB + p] = tmp[p];
        hbf::event("device-to-device-copy");
        if (dv.buf == sv.buf) hbf::event("copy-inside-one-buffer");
        noteAliasWrite(d);
      }
      break;
    }
    case FREE: {
      const int w = var[o.a];
      v[o.a]->free();
      if (w >= 0) for (int i = 0; i < NV; ++i) if (var[i] == w) var[i] = -1;   // all handles of this memory object
      break;
    }
    }
    if (ctx.judging && ctx.fails.empty()) oracle(o);
  }

  // zero-byte results: the property does not say whether such a handle is initialised; take it from isInitialized()
  void setZero(int i, const occa::memory &res, int dt, int buf = -1, long off = 0) {
    if (!res.isInitialized()) { var[i] = -1; return; }
    if (buf < 0) buf = newBuf(0);
    var[i] = newView(buf, off, 0, dt);
    hbf::event("zero-size-initialised-memory");
  }

  void noteAliasWrite(int i) {
    const View w = views[var[i]];
    for (int j = 0; j < NV; ++j) if (j != i && var[j] >= 0 && var[j] != var[i] && views[var[j]].buf == w.buf) {
      const View u = views[var[j]];
      if (u.off < w.off + w.bytes && w.off < u.off + u.bytes) hbf::event("write-visible-through-alias");
    }
  }

  //---[ oracle: every live memory reads back as the model says ]-------------------------------
  void oracle(const hb::Op &o) {
    const std::string op = ON[o.k];
    for (int i = 0; i < NV; ++i) {
      const std::string mi = "m" + std::to_string(i);
      if (v[i]->isInitialized() != (var[i] >= 0)) {
        fail("isInitialized:" + op, mi + ".isInitialized()=" + std::to_string(v[i]->isInitialized()) + ", model " + std::to_string(var[i] >= 0) + " after " + name(o));
        return;
      }
      if (var[i] < 0) continue;
      const View w = views[var[i]];
      if ((long) v[i]->byte_size() != w.bytes || v[i]->dtype().bytes() != DSZ[w.dt] || (long) v[i]->length() != w.len()) {
        fail("shape:" + op, mi + " has byte_size " + std::to_string(v[i]->byte_size()) + " dtype bytes " + std::to_string(v[i]->dtype().bytes()) +
             ", model " + std::to_string(w.bytes) + "/" + std::to_string(DSZ[w.dt]) + " after " + name(o));
        return;
      }
      // complete read: whole elements through copyTo, every byte through the host pointer
      const long whole = w.len() * DSZ[w.dt];
      unsigned char *h = new unsigned char[whole];
      try { v[i]->copyTo((void*) h); } catch (occa::exception &e) { fail("unexpected-throw:readback:" + op, mi + ".copyTo(all) threw after " + name(o)); delete[] h; return; }
      const unsigned char *p = (const unsigned char*) v[i]->ptr<void>();
      for (long q = 0; q < w.bytes; ++q) {
        const int m = bufs[w.buf].data[w.off + q];
        if (m < 0) continue;
        const int got = q < whole ? h[q] : p[q];
        if (got != m || p[q] != m) {
          fail("read-mismatch:" + op, mi + " byte " + std::to_string(q) + " reads " + std::to_string(got) + ", model " + std::to_string(m) + " after " + name(o));
          delete[] h;
          return;
        }
      }
      delete[] h;
    }
    for (const Buf &b : bufs) if (b.wrapped)
      for (size_t q = 0; q < b.data.size(); ++q) if (b.data[q] >= 0 && b.host[q] != b.data[q]) {
        fail("read-mismatch:wrapped-host:" + op, "wrapped host byte " + std::to_string(q) + " after " + name(o));
        return;
      }
  }

  //---[ canonical implementation state ]-------------------------------------------------------
  std::string canon() {
    std::map<const void*, int> mmIdx, bufIdx;
    // in the "full single-step layer" run every state is kept once per depth, so that every state reachable
    // within FULL_AT core operations is expanded with the full alphabet (shorter histories are padded by no-ops)
    std::string s = std::to_string(FULL_AT >= 0 ? std::min(steps, FULL_AT + 1) : 0) + "|";
    for (int i = 0; i < NV; ++i) {
      occa::modeMemory_t *mm = v[i]->getModeMemory();
      if (!mm) { s += "-;"; continue; }
      if (!mmIdx.count(mm)) { int k = (int) mmIdx.size(); mmIdx[mm] = k; }
      if (!bufIdx.count(mm->modeBuffer)) { int k = (int) bufIdx.size(); bufIdx[mm->modeBuffer] = k; }
      s += "M" + std::to_string(mmIdx[mm]) + "b" + std::to_string(bufIdx[mm->modeBuffer]) + "o" + std::to_string(mm->offset) + "s" +
           std::to_string(mm->size) + "t" + std::to_string(mm->dtype_->bytes()) + (mm->modeBuffer->isWrapped ? "w" : "") +
           "B" + std::to_string(mm->modeBuffer->size);
      // which bytes of this view have known content (model side; decides what later reads can be compared)
      const View w = views[var[i]];
      s += "k";
      for (long q = 0; q < w.bytes; ++q) s += bufs[w.buf].data[w.off + q] >= 0 ? '1' : '0';
      s += ";";
    }
    return s;
  }

  void finish() {}
};

int main(int argc, char **argv) {
  T3.registerType();
  if (getenv("C02_FULL_AT")) FULL_AT = atoi(getenv("C02_FULL_AT"));
  if (getenv("C02_MODE")) MODE = getenv("C02_MODE");
  if (argc >= 2 && std::string(argv[1]) == "modes") {
    printf("OpenMP %d\n", (int) occa::modeIsEnabled("OpenMP"));
    return 0;
  }
  return hbf::main<MSys>(argc, argv);
}
