// forkbatch.hpp - crash-attributing item loop for E2 drivers, cheap when MANY items crash.
//
// vlib.batch.run_items restarts the whole driver process behind a crashing item; with an ASan build of libocca a
// process start costs more than a second of CPU, so an exploration in which thousands of items crash (an unfixed
// defect, a mutant) becomes unusable.  This header keeps the same line protocol (BEGIN i / result lines / END i)
// but runs the items in a forked worker of the already initialised driver: when the worker dies, the parent
// reports the culprit *inside the protocol* and forks a new worker behind it (cost: one fork).
//
//   BEGIN i
//   XCRASH <exit:N | signal:N | timeout>
//   XSTDERR <hex of the worker's stderr (sanitizer report), truncated>
//   END i
//
// The driver process itself therefore exits 0 and run_items sees every item answered; the check reads XCRASH.
// The item in progress is published through a shared page, the worker flushes stdout before it touches an item,
// so output of earlier items is never lost.  A worker that does not finish an item within `itemTimeout` seconds
// is killed and reported as timeout.
//
// Note: do NOT fork once per item with an ASan build - a fork of an ASan process costs ~0.2 s of system time here
// (shadow page tables).  One worker per crash is what makes this cheap.  Run the driver with
// ASAN_OPTIONS quarantine_size_mb=1:malloc_context_size=0 (engines/forkbatch.py: asan_env): with the default 256 MB
// quarantine an allocation-heavy item loop never reuses memory and spends most of its time in page faults.
#ifndef VP_FORKBATCH_HPP
#define VP_FORKBATCH_HPP

#include <cstdio>
#include <cstdlib>
#include <cstring>
#include <fstream>
#include <functional>
#include <string>
#include <vector>

#include <fcntl.h>
#include <signal.h>
#include <sys/mman.h>
#include <sys/time.h>
#include <sys/types.h>
#include <sys/wait.h>
#include <unistd.h>

namespace fb {
  struct Shared {
    volatile long cur;       // index of the item in progress (-1: none)
    volatile long beats;     // incremented whenever an item starts
  };

  inline std::string hexOf(const std::string &s) {
    static const char *d = "0123456789abcdef";
    std::string r;
    r.reserve(2 * s.size() + 1);
    for (unsigned char c : s) { r += d[c >> 4]; r += d[c & 15]; }
    if (r.empty()) r = "-";
    return r;
  }

  inline double now() {
    struct timeval tv;
    gettimeofday(&tv, NULL);
    return tv.tv_sec + 1e-6 * tv.tv_usec;
  }

  // fn(index, line) prints the result lines of one item to stdout (no BEGIN/END).
  inline int run(const char *path,
                 const std::function<void(long, const std::string&)> &fn,
                 double itemTimeout = 10.0) {
    std::vector<std::string> items;
    {
      std::ifstream in(path);
      std::string line;
      while (std::getline(in, line)) items.push_back(line);
    }
    Shared *sh = (Shared*) mmap(NULL, sizeof(Shared), PROT_READ | PROT_WRITE, MAP_SHARED | MAP_ANONYMOUS, -1, 0);
    if (sh == MAP_FAILED) { perror("mmap"); return 3; }
    char errName[64];
    snprintf(errName, sizeof(errName), "fb-stderr-%d.tmp", (int) getpid());
    const long n = (long) items.size();
    long start = 0;
    while (start < n) {
      sh->cur = -1;
      fflush(stdout);
      int efd = open(errName, O_RDWR | O_CREAT | O_TRUNC, 0600);
      pid_t pid = fork();
      if (pid < 0) { perror("fork"); return 3; }
      if (pid == 0) {
        if (efd >= 0) { dup2(efd, 2); close(efd); }
        for (long i = start; i < n; ++i) {
          printf("BEGIN %ld\n", i);
          fflush(stdout);
          sh->cur = i;
          ++sh->beats;
          fn(i, items[i]);
          printf("END %ld\n", i);
        }
        fflush(stdout);
        _exit(0);
      }
      // parent: wait with a watchdog on the heartbeat
      int status = 0;
      bool timedOut = false;
      long lastBeat = sh->beats;
      double lastChange = now();
      bool started = false;      // a fresh worker of an ASan process may need seconds before its first item (COW faults)
      while (true) {
        pid_t w = waitpid(pid, &status, WNOHANG);
        if (w == pid) break;
        if (sh->beats != lastBeat) { lastBeat = sh->beats; lastChange = now(); started = true; }
        else if (now() - lastChange > (started ? itemTimeout : itemTimeout + 120.0)) {
          timedOut = true;
          kill(pid, SIGKILL);
          waitpid(pid, &status, 0);
          break;
        }
        usleep(2000);
      }
      const bool ok = !timedOut && WIFEXITED(status) && WEXITSTATUS(status) == 0;
      if (ok) {
        if (efd >= 0) close(efd);
        break;
      }
      long culprit = sh->cur;
      if (culprit < start) culprit = start;      // died before the first item started
      char desc[64];
      if (timedOut) snprintf(desc, sizeof(desc), "timeout");
      else if (WIFSIGNALED(status)) snprintf(desc, sizeof(desc), "signal:%d", WTERMSIG(status));
      else snprintf(desc, sizeof(desc), "exit:%d", WEXITSTATUS(status));
      std::string err;
      if (efd >= 0) {
        lseek(efd, 0, SEEK_SET);
        char buf[4096];
        ssize_t k;
        while ((k = read(efd, buf, sizeof(buf))) > 0 && err.size() < (1u << 20)) err.append(buf, (size_t) k);
        close(efd);
      }
      // keep the sanitizer report (it starts at the ERROR line); otherwise the tail
      size_t pos = err.find("ERROR: AddressSanitizer");
      if (pos != std::string::npos) {
        size_t ls = err.rfind('\n', pos);
        err = err.substr(ls == std::string::npos ? 0 : ls + 1);
        if (err.size() > 6000) err.resize(6000);
      } else if (err.size() > 6000) {
        err = err.substr(err.size() - 6000);
      }
      printf("BEGIN %ld\nXCRASH %s\nXSTDERR %s\nEND %ld\n", culprit, desc, hexOf(err).c_str(), culprit);
      fflush(stdout);
      start = culprit + 1;
    }
    unlink(errName);
    fflush(stdout);
    return 0;
  }
}

#endif
