// kprobe: build (JIT + cache) and run kernels as one OS process would; used by C06-C09.
// usage: kprobe <spec.json>
// spec: {"mode": "Serial", "device_props": {...}, "settings": {...},
//        "builds": [ {"file": "<path>" | "string": "<source>", "kernel": "k", "props": {...}, "nout": 8,
//                     "hash_only": false} ... ]}
// For every build prints one line:  RESULT <i> <v0> <v1> ...   |  HASH <i> <kernel hash> | EXC <i> <first line of message>
#include <occa.hpp>
#include <occa/internal/io.hpp>
#include <occa/internal/utils/env.hpp>
#include <cstdio>
#include <cstdlib>
#include <iostream>

static std::string firstLines(const std::string &s) {
  std::string o;
  for (char c : s) o += (c == '\n' ? '|' : c);
  if (o.size() > 400) o = o.substr(0, 400);
  return o;
}

int main(int argc, char **argv) {
  if (argc < 2) return 2;
  setvbuf(stdout, NULL, _IOLBF, 0);
  int rc = 0;
  try {
    occa::json spec = occa::json::read(argv[1]);
    if (spec.has("settings")) occa::settings() += spec["settings"];
    occa::json dprops = spec.get("device_props", occa::json());
    dprops["mode"] = spec.get<std::string>("mode", "Serial");
    occa::device dev(dprops);
    occa::jsonArray builds = spec["builds"].array();
    for (int i = 0; i < (int) builds.size(); ++i) {
      occa::json &b = builds[i];
      const std::string kname = b.get<std::string>("kernel", "k");
      occa::json props = b.get("props", occa::json());
      const int nout = b.get("nout", 8);
      try {
        if (b.get("hash_only", false)) {
          occa::json allProps; occa::hash_t h;
          occa::hash_t src = b.has("file") ? occa::hashFile((std::string) b["file"]) : occa::hash((std::string) b["string"]);
          dev.setupKernelInfo(props, src, allProps, h);
          printf("HASH %d %s\n", i, h.getFullString().c_str());
          continue;
        }
        occa::kernel k = b.has("file")
          ? dev.buildKernel((std::string) b["file"], kname, props)
          : dev.buildKernelFromString((std::string) b["string"], kname, props);
        std::vector<int> host(nout, -1);
        occa::memory out = dev.malloc<int>(nout, host.data());
        k(out);
        dev.finish();
        out.copyTo(host.data());
        printf("RESULT %d", i);
        for (int v : host) printf(" %d", v);
        printf(" H=%s\n", k.hash().getFullString().c_str());
        if (b.get("argcheck", false)) {
          // the kernel must still know its parameter list (metadata of a complete cache entry):
          // running it without arguments has to be rejected
          int threw = 0;
          try { k(); } catch (occa::exception &e) { threw = 1; }
          printf("ARGCHECK %d %d\n", i, threw);
        }
      } catch (occa::exception &e) {
        printf("EXC %d %s\n", i, firstLines(e.toString()).c_str());
        rc = 3;
      }
    }
  } catch (occa::exception &e) {
    printf("EXC -1 %s\n", firstLines(e.toString()).c_str());
    return 3;
  } catch (std::exception &e) {
    printf("STDEXC %s\n", e.what());
    return 4;
  }
  return rc;
}
