// pfs - ptrace-based file-system fault injector / scheduler for E3 (C07-C09).
//
// Runs one command as tracee (children of the tracee are NOT traced: a compiler child is one atomic
// step of its parent, which blocks in wait4).  Every system call of the root process that touches a
// path below --root (or an fd opened on such a path), plus process-creation/wait calls, is a numbered
// *operation*.  Modes:
//   --trace FILE        write one line per operation:  <idx> <name> <ret> <flags> <path> [<path2>]
//   --kill-before K     SIGKILL the tracee (and its process group with --group) at the entry of op K
//   --torn K            op K must be a write: perform it with half of its byte count, then SIGKILL
//   --sched             before every operation print "OP <idx> <name> <flags> <path> [<path2>]" on fd 3 and wait
//                       for a line on fd 4 ("GO" = proceed, "KILL" = kill); after the operation print
//                       "DONE <idx> <ret>"; at exit print "EXIT <status>".
// Exit status: that of the tracee (128+signal if it was killed by a signal; 137 for our own SIGKILL).
#define _GNU_SOURCE
#include <errno.h>
#include <fcntl.h>
#include <signal.h>
#include <stdio.h>
#include <stdlib.h>
#include <string.h>
#include <sys/ptrace.h>
#include <sys/syscall.h>
#include <sys/types.h>
#include <sys/uio.h>
#include <sys/user.h>
#include <sys/wait.h>
#include <unistd.h>

#define MAXFD 4096
static char *fdpath[MAXFD];
static const char *root = NULL;
static size_t rootlen = 0;
static FILE *tracef = NULL;
static long killBefore = -1, tornAt = -1;
static int sched = 0, group = 0, allOps = 0, waitOrphans = 0;
static FILE *schedOut = NULL, *schedIn = NULL;
static int schedFdOut = 3, schedFdIn = 4;

static void normalize(char *p) {
  // collapse repeated slashes
  char *w = p;
  for (char *r = p; *r; ++r) {
    if (*r == '/' && w > p && w[-1] == '/') continue;
    *w++ = *r;
  }
  *w = 0;
}

static int readstr(pid_t pid, unsigned long addr, char *buf, size_t n) {
  size_t got = 0;
  buf[0] = 0;
  if (!addr) return -1;
  while (got < n - 1) {
    size_t chunk = 256 - (addr + got) % 256;
    if (chunk > n - 1 - got) chunk = n - 1 - got;
    struct iovec l = {buf + got, chunk}, r = {(void *) (addr + got), chunk};
    ssize_t k = process_vm_readv(pid, &l, 1, &r, 1, 0);
    if (k <= 0) break;
    for (ssize_t i = 0; i < k; ++i)
      if (buf[got + i] == 0) { normalize(buf); return 0; }
    got += k;
  }
  buf[got] = 0;
  normalize(buf);
  return 0;
}

static int underRoot(const char *p) {
  if (!root) return 1;
  return strncmp(p, root, rootlen) == 0;
}

struct op {
  const char *name;
  char path[4096], path2[4096];
  long flags;
  int fd;          // fd argument (for write/close/fsync/read)
  int isOpen;      // records fd->path at exit
  int counted;
};

static void classify(pid_t pid, struct user_regs_struct *r, struct op *o) {
  long nr = r->orig_rax;
  o->name = NULL; o->path[0] = o->path2[0] = 0; o->flags = 0; o->fd = -1; o->isOpen = 0; o->counted = 0;
  switch (nr) {
  case SYS_open: o->name = "open"; readstr(pid, r->rdi, o->path, sizeof o->path); o->flags = r->rsi; o->isOpen = 1; break;
  case SYS_creat: o->name = "creat"; readstr(pid, r->rdi, o->path, sizeof o->path); o->flags = O_CREAT | O_WRONLY | O_TRUNC; o->isOpen = 1; break;
  case SYS_openat: o->name = "open"; readstr(pid, r->rsi, o->path, sizeof o->path); o->flags = r->rdx; o->isOpen = 1; break;
  case SYS_read: case SYS_pread64: o->name = "read"; o->fd = r->rdi; break;
  case SYS_write: case SYS_pwrite64: o->name = "write"; o->fd = r->rdi; o->flags = r->rdx; break;
  case SYS_writev: o->name = "writev"; o->fd = r->rdi; break;
  case SYS_close: o->name = "close"; o->fd = r->rdi; break;
  case SYS_fsync: case SYS_fdatasync: o->name = "fsync"; o->fd = r->rdi; break;
  case SYS_ftruncate: o->name = "ftruncate"; o->fd = r->rdi; break;
  case SYS_stat: case SYS_lstat: case SYS_access: o->name = "stat"; readstr(pid, r->rdi, o->path, sizeof o->path); break;
  case SYS_newfstatat: case SYS_faccessat:
#ifdef SYS_faccessat2
  case SYS_faccessat2:
#endif
  case SYS_statx:
    o->name = "stat"; readstr(pid, r->rsi, o->path, sizeof o->path);
    if (!o->path[0]) o->name = NULL;   // fstat via AT_EMPTY_PATH
    break;
  case SYS_rename: o->name = "rename"; readstr(pid, r->rdi, o->path, sizeof o->path); readstr(pid, r->rsi, o->path2, sizeof o->path2); break;
  case SYS_renameat:
#ifdef SYS_renameat2
  case SYS_renameat2:
#endif
    o->name = "rename"; readstr(pid, r->rsi, o->path, sizeof o->path); readstr(pid, r->r10, o->path2, sizeof o->path2); break;
  case SYS_mkdir: o->name = "mkdir"; readstr(pid, r->rdi, o->path, sizeof o->path); break;
  case SYS_mkdirat: o->name = "mkdir"; readstr(pid, r->rsi, o->path, sizeof o->path); break;
  case SYS_rmdir: o->name = "rmdir"; readstr(pid, r->rdi, o->path, sizeof o->path); break;
  case SYS_unlink: o->name = "unlink"; readstr(pid, r->rdi, o->path, sizeof o->path); break;
  case SYS_unlinkat: o->name = "unlink"; readstr(pid, r->rsi, o->path, sizeof o->path); break;
  case SYS_truncate: o->name = "truncate"; readstr(pid, r->rdi, o->path, sizeof o->path); break;
  case SYS_clone: case SYS_fork: case SYS_vfork:
#ifdef SYS_clone3
  case SYS_clone3:
#endif
    o->name = "spawn"; o->counted = 1; break;
  case SYS_wait4: o->name = "wait"; o->counted = 1; break;
  default: return;
  }
  if (!o->name) return;
  if (o->fd >= 0) {
    if (o->fd < MAXFD && fdpath[o->fd]) { strncpy(o->path, fdpath[o->fd], sizeof o->path - 1); o->counted = 1; }
  } else if (o->path[0]) {
    if (underRoot(o->path) || (o->path2[0] && underRoot(o->path2))) o->counted = 1;
  }
  if (allOps && o->name) o->counted = 1;
  // a spawn is a thread creation when CLONE_THREAD is set: not an operation
  if (!strcmp(o->name, "spawn") && nr == SYS_clone && (r->rdi & 0x00010000 /*CLONE_THREAD*/)) o->counted = 0;
}

static int finalStatus = 0, haveFinal = 0;
static void killTracee(pid_t pid) {
  if (group) kill(-pid, SIGKILL);
  kill(pid, SIGKILL);
  // reap: the tracee dies without executing the pending system call
  int st;
  while (waitpid(pid, &st, __WALL) > 0) {
    if (WIFEXITED(st) || WIFSIGNALED(st)) { finalStatus = st; haveFinal = 1; break; }
    ptrace(PTRACE_CONT, pid, 0, 0);
  }
}

int main(int argc, char **argv) {
  int i = 1;
  const char *tracePath = NULL;
  for (; i < argc; ++i) {
    if (!strcmp(argv[i], "--")) { ++i; break; }
    else if (!strcmp(argv[i], "--root")) { root = argv[++i]; rootlen = strlen(root); }
    else if (!strcmp(argv[i], "--trace")) tracePath = argv[++i];
    else if (!strcmp(argv[i], "--kill-before")) killBefore = atol(argv[++i]);
    else if (!strcmp(argv[i], "--torn")) tornAt = atol(argv[++i]);
    else if (!strcmp(argv[i], "--sched")) sched = 1;
    else if (!strcmp(argv[i], "--sched-fds")) { sched = 1; sscanf(argv[++i], "%d,%d", &schedFdOut, &schedFdIn); }
    else if (!strcmp(argv[i], "--group")) group = 1;
    else if (!strcmp(argv[i], "--all")) allOps = 1;
    else if (!strcmp(argv[i], "--wait-orphans")) waitOrphans = 1;
    else { fprintf(stderr, "pfs: unknown option %s\n", argv[i]); return 2; }
  }
  if (i >= argc) { fprintf(stderr, "usage: pfs [opts] -- cmd...\n"); return 2; }
  if (tracePath) tracef = fopen(tracePath, "w");
  if (sched) { schedOut = fdopen(schedFdOut, "w"); schedIn = fdopen(schedFdIn, "r"); if (!schedOut || !schedIn) { fprintf(stderr, "pfs: --sched needs fd 3 and 4\n"); return 2; } }

  pid_t pid = fork();
  if (pid == 0) {
    if (sched) { close(schedFdOut); close(schedFdIn); }
    setpgid(0, 0);
    ptrace(PTRACE_TRACEME, 0, 0, 0);
    raise(SIGSTOP);
    execvp(argv[i], argv + i);
    perror("pfs: exec");
    _exit(127);
  }
  int status;
  waitpid(pid, &status, 0);
  ptrace(PTRACE_SETOPTIONS, pid, 0, PTRACE_O_TRACESYSGOOD | PTRACE_O_EXITKILL);
  long idx = 0;
  int inSyscall = 0;
  struct op cur; memset(&cur, 0, sizeof cur);
  int killedByUs = 0, tornPending = 0;
  int sig = 0;
  for (;;) {
    if (haveFinal) { status = finalStatus; break; }
    if (ptrace(PTRACE_SYSCALL, pid, 0, sig) < 0) break;
    sig = 0;
    if (waitpid(pid, &status, __WALL) < 0) break;
    if (WIFEXITED(status) || WIFSIGNALED(status)) break;
    if (!WIFSTOPPED(status)) continue;
    int s = WSTOPSIG(status);
    if (s != (SIGTRAP | 0x80)) {
      if (s != SIGTRAP && s != SIGSTOP) sig = s;  // forward real signals (e.g. SIGCHLD)
      if (s == SIGSTOP) sig = 0;
      continue;
    }
    struct user_regs_struct regs;
    if (ptrace(PTRACE_GETREGS, pid, 0, &regs) < 0) break;
    if (!inSyscall) {
      inSyscall = 1;
      classify(pid, &regs, &cur);
      if (!cur.counted) continue;
      if (killBefore == idx) {
        if (tracef) { fprintf(tracef, "%ld KILLED-BEFORE %s %s\n", idx, cur.name, cur.path); fflush(tracef); }
        killTracee(pid); killedByUs = 1;
        continue;
      }
      if (tornAt == idx) {
        if (strcmp(cur.name, "write") != 0) { fprintf(stderr, "pfs: op %ld is %s, not a write\n", idx, cur.name); killTracee(pid); waitpid(pid, &status, 0); return 3; }
        regs.rdx = regs.rdx / 2;
        ptrace(PTRACE_SETREGS, pid, 0, &regs);
        tornPending = 1;
      }
      if (sched) {
        fprintf(schedOut, "OP %ld %s %ld %s %s\n", idx, cur.name, cur.flags, cur.path[0] ? cur.path : "-", cur.path2[0] ? cur.path2 : "-");
        fflush(schedOut);
        char line[64];
        if (!fgets(line, sizeof line, schedIn) || !strncmp(line, "KILL", 4)) { killTracee(pid); killedByUs = 1; continue; }
      }
    } else {
      inSyscall = 0;
      if (!cur.counted) continue;
      long ret = (long) regs.rax;
      if (cur.isOpen && ret >= 0 && ret < MAXFD) {
        free(fdpath[ret]); fdpath[ret] = NULL;
        if (underRoot(cur.path) || allOps) fdpath[ret] = strdup(cur.path);
      }
      if (!strcmp(cur.name, "close") && cur.fd >= 0 && cur.fd < MAXFD) { free(fdpath[cur.fd]); fdpath[cur.fd] = NULL; }
      if (tracef) { fprintf(tracef, "%ld %s %ld %ld %s %s\n", idx, cur.name, ret, cur.flags, cur.path[0] ? cur.path : "-", cur.path2[0] ? cur.path2 : "-"); fflush(tracef); }
      if (sched) { fprintf(schedOut, "DONE %ld %ld\n", idx, ret); fflush(schedOut); }
      idx++;
      if (tornPending) { killTracee(pid); killedByUs = 1; tornPending = 0; }
    }
  }
  if (waitOrphans) {
    // children of the dead tracee (e.g. a compiler) share its process group: let them finish
    for (int n = 0; n < 60000 && kill(-pid, 0) == 0; ++n) usleep(1000);
  }
  int code;
  if (WIFEXITED(status)) code = WEXITSTATUS(status);
  else if (WIFSIGNALED(status)) code = 128 + WTERMSIG(status);
  else code = 125;
  if (tracef) { fprintf(tracef, "# ops=%ld exit=%d killedByUs=%d\n", idx, code, killedByUs); fclose(tracef); }
  if (sched) { fprintf(schedOut, "EXIT %d\n", code); fflush(schedOut); }
  return code;
}
