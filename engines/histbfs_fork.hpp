// E1 histbfs, forked-worker driver (same protocol as hb::main in histbfs.hpp, same Python side).
//
// hb::main runs every transition inside the driver process, so a crashing transition (sanitizer abort,
// signal) kills the driver and the Python side has to start a new process behind it.  With the ASan build of
// libocca a process start costs seconds, and a defect that makes hundreds of transitions crash turns a
// 1-minute exploration into an hour.  hbf::main keeps the driver free of histories: a forked worker runs the items and publishes
// (item, operation) in shared memory.  When the worker dies, the parent turns the death into
// an ordinary observation line
//        V <op> <signature>\t<first line of the sanitizer report>
// for exactly that operation and forks the next worker behind it.  Nothing else changes: histories are
// still replayed from a fresh System, canon() keys are still compared by the Python side.
//
// Additional System members used here:
//   static std::string crashSig(const hb::Op&, const std::string &cls)   signature of a dying transition;
//        cls = "asan-heap-use-after-free" | ... | "hang" (watchdog SIGALRM) | "signal<n>" | "exit<n>"
// UBSan runs in recover mode (halt_on_error=0): a transition during which the worker's stderr grew by a
// "runtime error:" line is reported as  V <op> <crashSig(op, "ubsan")>.
//
// hbf::event(name) records a fact for vacuity guards; facts of all workers are collected in shared memory and
// appended to the file "events.<driver pid>" in the working directory when first seen.
#pragma once
#include <fcntl.h>
#include <set>
#include <signal.h>
#include <sys/mman.h>
#include <sys/stat.h>
#include <sys/wait.h>
#include <unistd.h>
#include "histbfs.hpp"

namespace hbf {
  struct Shared {
    volatile long driverPid;
    volatile long itemIndex;
    volatile long opIndex;
    volatile char opText[96];
    volatile char opKindSig[8];
    volatile size_t used;
    char events[1 << 16];
  };
  inline Shared *&shared() { static Shared *s = NULL; return s; }
  inline std::set<std::string> &localEvents() { static std::set<std::string> s; return s; }

  inline void event(const std::string &name) {
    if (!localEvents().insert(name).second) return;
    Shared *s = shared();
    if (!s) return;
    const std::string line = "\n" + name + "\n";
    if (s->used && strstr(s->events, line.c_str())) return;
    if (s->used + line.size() + 1 >= sizeof(s->events)) return;
    if (!s->used) { s->events[0] = '\n'; s->used = 1; }
    memcpy(s->events + s->used, name.c_str(), name.size());
    s->events[s->used + name.size()] = '\n';
    s->events[s->used + name.size() + 1] = 0;
    s->used += name.size() + 1;
    // also append it to the driver's events file right away: a driver killed by the runner's timeout keeps its facts
    char fn[64];
    snprintf(fn, sizeof fn, "events.%ld", (long) s->driverPid);
    int fd = open(fn, O_WRONLY | O_CREAT | O_APPEND, 0600);
    if (fd >= 0) { const std::string l = name + "\n"; ssize_t w = write(fd, l.c_str(), l.size()); (void) w; close(fd); }
  }

  inline void writeEvents() {}   // facts are appended to events.<driver pid> as they are first seen

  inline std::string crashClass(const std::string &err) {
    if (err.find("AddressSanitizer") != std::string::npos) {
      static const char *kw[] = {"heap-use-after-free", "heap-buffer-overflow", "attempting double-free", "stack-buffer-overflow",
                                 "SEGV", "stack-overflow", "global-buffer-overflow", "alloc-dealloc-mismatch", "negative-size-param",
                                 "stack-use-after-scope", "bad-free", "memcpy-param-overlap", "allocation-size-too-big", "FPE"};
      for (const char *k : kw) if (err.find(k) != std::string::npos) {
        std::string s = std::string("asan-") + k;
        for (auto &ch : s) if (ch == ' ') ch = '-';
        return s;
      }
      return "asan";
    }
    return "";
  }

  inline std::string firstReport(const std::string &err) {
    size_t i = 0;
    while (i < err.size()) {
      size_t j = err.find('\n', i);
      if (j == std::string::npos) j = err.size();
      const std::string ln = err.substr(i, j - i);
      if (ln.find("ERROR: AddressSanitizer") != std::string::npos || ln.find("runtime error") != std::string::npos ||
          ln.find("terminate called") != std::string::npos || ln.find("what():") != std::string::npos)
        return hb::oneLine(ln).substr(0, 300);
      i = j + 1;
    }
    return "";
  }

  inline std::string readFrom(const char *path, off_t from) {
    std::string out;
    int fd = open(path, O_RDONLY);
    if (fd < 0) return out;
    lseek(fd, from, SEEK_SET);
    char buf[4096];
    ssize_t n;
    while ((n = read(fd, buf, sizeof buf)) > 0 && out.size() < 20000) out.append(buf, n);
    close(fd);
    return out;
  }

  struct Item { std::vector<hb::Op> h; int skip; };

  // worker: processes items[fromItem..] ; for the first item it resumes behind operation `fromOp` (-1: from the start)
  template <class Sys>
  void work(const std::vector<Item> &items, size_t fromItem, long fromOp, const char *errPath) {
    Shared *sh = shared();
    int fd = open(errPath, O_WRONLY | O_CREAT | O_TRUNC, 0600);   // private stderr, the parent quotes the sanitizer report
    if (fd >= 0) { dup2(fd, 2); close(fd); }
    off_t seen = 0;
    for (size_t k = fromItem; k < items.size(); ++k) {
      const std::vector<hb::Op> &h = items[k].h;
      const bool resume = (k == fromItem && fromOp >= 0);
      sh->itemIndex = (long) k;
      sh->opIndex = -1;
      if (!resume) printf("BEGIN %zu\n", k);
      hb::Ctx ctx0;
      std::vector<hb::Op> en;
      const std::string key0 = hb::runHistory<Sys>(h, NULL, ctx0, &en);
      if (!resume) {
        printf("S %s\n", key0.c_str());
        printf("N %zu\n", en.size());
      }
      for (size_t i = resume ? (size_t) fromOp : (size_t) items[k].skip; i < en.size(); ++i) {
        sh->opIndex = (long) i;
        snprintf((char*) sh->opText, sizeof(sh->opText), "%s", hb::opStr(en[i]).c_str());
        sh->opKindSig[0] = 0;
        printf("P %zu %s\n", i, hb::opStr(en[i]).c_str());
        hb::Ctx ctx;
        const std::string key = hb::runHistory<Sys>(h, &en[i], ctx, NULL);
        struct stat st;
        if (ctx.fails.empty() && fstat(2, &st) == 0 && st.st_size > seen) {
          const std::string add = readFrom(errPath, seen);
          seen = st.st_size;
          if (add.find("runtime error:") != std::string::npos)
            ctx.fail(Sys::crashSig(en[i], "ubsan"), firstReport(add));
        }
        if (ctx.fails.empty()) {
          printf("T %s %s\n", hb::opStr(en[i]).c_str(), key.c_str());
        } else {
          for (auto &f : ctx.fails)
            printf("V %s %s\t%s\n", hb::opStr(en[i]).c_str(), f.first.c_str(), f.second.c_str());
        }
      }
      sh->opIndex = -2;   // between items
      printf("END %zu\n", k);
    }
    fflush(stdout);
    _exit(0);
  }

  template <class Sys>
  int main(int argc, char **argv) {
    if (argc < 3 || std::string(argv[1]) != "expand") {
      int rc = hb::main<Sys>(argc, argv);
      return rc;
    }
    setvbuf(stdout, NULL, _IOLBF, 0);
    Shared *sh = (Shared*) mmap(NULL, sizeof(Shared), PROT_READ | PROT_WRITE, MAP_SHARED | MAP_ANONYMOUS, -1, 0);
    if (sh == MAP_FAILED) { perror("mmap"); return 2; }
    memset((void*) sh, 0, sizeof(Shared));
    shared() = sh;
    sh->driverPid = (long) getpid();
    char errPath[64];
    snprintf(errPath, sizeof errPath, "worker-stderr.%d", (int) getpid());

    std::vector<Item> items;
    {
      std::ifstream in(argv[2]);
      std::string line;
      while (std::getline(in, line)) {
        Item it;
        it.skip = 0;
        size_t bar = line.find('|');
        if (bar != std::string::npos) {
          sscanf(line.c_str() + bar, "|skip=%d", &it.skip);
          line = line.substr(0, bar);
        }
        it.h = hb::parseHistory(line);
        items.push_back(it);
      }
    }
    size_t fromItem = 0;
    long fromOp = -1;
    while (fromItem < items.size()) {
      sh->itemIndex = -1;
      sh->opIndex = -1;
      fflush(stdout);
      const pid_t pid = fork();
      if (pid < 0) { perror("fork"); return 2; }
      if (pid == 0) work<Sys>(items, fromItem, fromOp, errPath);
      int status = 0;
      while (waitpid(pid, &status, 0) < 0 && errno == EINTR) {}
      if (WIFEXITED(status) && WEXITSTATUS(status) == 0) break;
      const long k = sh->itemIndex, i = sh->opIndex;
      const std::string err = readFrom(errPath, 0);
      if (k < (long) fromItem || i == -1) {
        // died while replaying a prefix / before any operation: leave the attribution to the Python side
        // (it blames the item behind the last END line and restarts the driver behind it)
        fputs(err.substr(0, 6000).c_str(), stderr);
        if (WIFSIGNALED(status)) { signal(WTERMSIG(status), SIG_DFL); raise(WTERMSIG(status)); }
        return WIFEXITED(status) ? WEXITSTATUS(status) : 3;
      }
      if (i == -2) { fromItem = (size_t) k + 1; fromOp = -1; continue; }   // died between two items (after END)
      std::string cls = crashClass(err);
      if (cls.empty()) {
        if (WIFSIGNALED(status)) cls = WTERMSIG(status) == SIGALRM ? "hang" : "signal" + std::to_string(WTERMSIG(status));
        else cls = "exit" + std::to_string(WEXITSTATUS(status));
      }
      std::string detail = firstReport(err);
      if (detail.empty()) detail = WIFSIGNALED(status) ? "killed by signal " + std::to_string(WTERMSIG(status)) : "exit status " + std::to_string(WEXITSTATUS(status));
      hb::Op op;
      sscanf((const char*) sh->opText, "%d,%d,%d,%d", &op.k, &op.a, &op.b, &op.c);
      printf("V %s %s\t%s\n", (const char*) sh->opText, Sys::crashSig(op, cls).c_str(), detail.c_str());
      fromItem = (size_t) k;
      fromOp = i + 1;
    }
    unlink(errPath);
    writeEvents();
    return 0;
  }
}
