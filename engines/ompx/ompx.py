#!/usr/bin/env python3
"""ompx (E5) build helpers + self-test.   python3 engines/ompx/ompx.py   prints OMPX-SELFTEST PASS

    kernel_cmd(src, obj)        compile a translated OpenMP kernel TU: -O0 -fopenmp -fsanitize=thread -c
    runtime_cmd(obj)            compile ompx.cpp (no sanitizer, no OpenMP)
    link_cmd(objs, exe)         link WITHOUT -fsanitize=thread and WITHOUT libgomp
    undefined_symbols(obj)      what the kernel object expects from a runtime (nm -u)
"""
import os, subprocess, sys

HERE = os.path.dirname(os.path.abspath(__file__))
ROOT = os.path.dirname(os.path.dirname(HERE))
BUILD = os.environ.get("VERIF_BUILD", os.path.join(ROOT, "build"))


def kernel_cmd(src, obj, extra=()):
    return ["g++", "-std=c++17", "-O0", "-g1", "-w", "-fopenmp", "-fsanitize=thread"] + list(extra) + ["-c", src, "-o", obj]


def host_cmd(src, obj, extra=()):
    return ["g++", "-std=c++17", "-O1", "-g1", "-w", "-I" + HERE] + list(extra) + ["-c", src, "-o", obj]


def runtime_cmd(obj):
    return host_cmd(os.path.join(HERE, "ompx.cpp"), obj)


def link_cmd(objs, exe, extra=()):
    return ["g++"] + list(objs) + list(extra) + ["-o", exe]


def undefined_symbols(obj):
    p = subprocess.run(["nm", "-u", obj], stdout=subprocess.PIPE, text=True)
    return sorted(set(ln.split()[-1] for ln in p.stdout.split("\n") if ln.strip()))


def _run(cmd, **kw):
    return subprocess.run(cmd, stdout=subprocess.PIPE, stderr=subprocess.STDOUT, text=True, **kw)


def selftest(workdir):
    os.makedirs(workdir, exist_ok=True)
    ko, ro, so = (os.path.join(workdir, n) for n in ("st_kernels.o", "ompx.o", "selftest.o"))
    procs = [subprocess.Popen(c, stdout=subprocess.PIPE, stderr=subprocess.STDOUT, text=True) for c in (
        kernel_cmd(os.path.join(HERE, "st_kernels.cpp"), ko), runtime_cmd(ro), host_cmd(os.path.join(HERE, "selftest.cpp"), so))]
    for p in procs:
        out, _ = p.communicate()
        if p.returncode != 0:
            return False, "compile failed:\n" + out[-4000:]
    exe = os.path.join(workdir, "ompx_selftest")
    p = _run(link_cmd([ko, ro, so], exe))
    if p.returncode != 0:
        return False, "link failed (a symbol the lowering needs is not provided by ompx?):\n" + p.stdout[-4000:]
    p = _run([exe], cwd=workdir)
    return (p.returncode == 0 and "OMPX-SELFTEST PASS" in p.stdout), p.stdout[-4000:]


if __name__ == "__main__":
    ok, out = selftest(os.path.join(BUILD, "scratch", "ompx-selftest"))
    print(out)
    sys.exit(0 if ok else 1)
