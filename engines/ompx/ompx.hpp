// ompx - engine E5: a replacement OpenMP runtime + race monitor + schedule explorer for *translated
// OpenMP kernels* (TRUSTED BASE; self-tested by selftest.cpp / ompx.py).
//
// The kernel TU is compiled with `g++ -O0 -fopenmp -fsanitize=thread -c`.  gcc lowers
//     #pragma omp parallel for   -> GOMP_parallel(outlined fn, data, 0, 0); the outlined function computes
//                                   its static chunk from omp_get_num_threads()/omp_get_thread_num()
//     #pragma omp critical       -> GOMP_critical_start() ... GOMP_critical_end()
//     #pragma omp atomic         -> __tsan_atomic*_fetch_add / compare_exchange ...
//     every other memory access  -> __tsan_read<N> / __tsan_write<N>
// and leaves exactly these symbols (plus omp_get_*, __tsan_init, __tsan_func_entry/exit) undefined.
// ompx.cpp defines all of them; the executable is linked WITHOUT -fsanitize=thread and without libgomp.
//
// Model
//   * GOMP_parallel runs the outlined region on T *virtual threads* (ucontext fibers, one private stack
//     each, so stack addresses of different virtual threads never alias); thread ids 0..T-1,
//     omp_get_num_threads() == T inside the region.  A nested region is serialised on the encountering
//     virtual thread (team of one), which is libgomp's default.
//   * Exactly one virtual thread runs at a time.  Scheduling decisions ("choice points"):
//       start / finish / blocked : which enabled thread runs next                 (not a preemption)
//       visible operation        : before every atomic operation, every GOMP_critical_start and every
//                                  GOMP_critical_end (i.e. while the lock is still held) the running thread
//                                  may be preempted in favour of any other enabled thread
//                                  (costs one preemption; allowed while preemptions < bound)
//     A thread that wants the critical lock while another virtual thread holds it is disabled until
//     the lock is released.  These are the only synchronisations an OCCA OpenMP translation contains.
//   * An execution is determined by its sequence of choices.  `Explorer` enumerates all choice
//     sequences depth-first by re-executing the body with a forced prefix (stateless model checking);
//     the number of options at every replayed choice point must be the same as when it was first
//     seen - otherwise `divergence` is set (harness error, never a verdict).
//   * Conflict monitor: inside one parallel region, two accesses from different virtual threads to
//     overlapping bytes, at least one a write, that are not both atomic operations and not both inside
//     `omp critical`, are a DATA RACE.  No other happens-before exists inside a `parallel for`, so
//     this is independent of the order in which the monitor saw the accesses.  Accesses outside of
//     parallel regions (the sequential part of the kernel, the harness) are ordered with everything by
//     fork/join and are not recorded.
//
// Single OS thread.  No clock, no randomness.
#ifndef VERIF_OMPX_HPP
#define VERIF_OMPX_HPP

#include <cstddef>
#include <cstdint>
#include <string>
#include <vector>

namespace ompx {

  enum AccessCategory { Plain = 0, Atomic = 1, InCritical = 2 };

  struct Race {
    uintptr_t addr;         // first conflicting byte
    int threadA, threadB;   // virtual thread ids (A accessed first in this execution)
    bool writeA, writeB;
    int catA, catB;         // AccessCategory
    int region;             // index of the parallel region within the execution
    std::string where;      // "<name>+<byte offset>" of a registered range, "stack of thread k", or "other"
  };

  struct Choice {
    int options;            // number of alternatives at this point (>= 1)
    int chosen;             // index taken
    char kind;              // 's'tart 'f'inish 'b'locked 'v'isible
  };

  struct ExecResult {
    std::vector<Choice> trace;
    std::vector<Race> races;        // at most one per (region, kind of pair) - the first seen
    size_t regions;                 // parallel regions executed (outermost)
    size_t nestedRegions;           // nested regions serialised
    size_t accesses;                // instrumented accesses recorded inside regions
    size_t atomics;                 // atomic operations executed inside regions
    size_t criticals;               // critical sections entered inside regions
    size_t steps;                   // scheduled steps (a thread resumed until its next scheduling point)
    size_t preemptions;             // preemptions taken
    size_t blockedWaits;            // times a thread had to wait for the critical lock
    bool divergence;                // replayed prefix did not meet the same choice points
    std::string error;              // runtime misuse (unbalanced critical, unknown entry) - harness error
    ExecResult() : regions(0), nestedRegions(0), accesses(0), atomics(0), criticals(0), steps(0),
                   preemptions(0), blockedWaits(0), divergence(false) {}
  };

  // address ranges with names, for readable race reports (arguments of the kernel)
  void clearRanges();
  void addRange(const char *name, const void *ptr, size_t bytes);

  // Run `body` (which calls the instrumented kernel once or several times) with T virtual threads per
  // region, forcing the choices `prefix` (beyond it: option 0 = "continue" / lowest enabled thread).
  // order: if non-empty, a permutation of 0..T-1 - start/finish/blocked choices then offer the enabled
  // threads in this order (option 0 = first enabled thread of `order`); used to run one fixed
  // whole-thread order cheaply when T is too large to enumerate T! orders.
  struct ExecConfig {
    int threads;
    int preemptionBound;
    std::vector<int> prefix;
    std::vector<int> order;
    ExecConfig() : threads(1), preemptionBound(0) {}
  };
  typedef void (*BodyFn)(void *ctx);
  void execute(const ExecConfig &config, BodyFn body, void *ctx, ExecResult &result);

  // Depth-first enumeration of all choice sequences.  Usage:
  //   Explorer ex(T, bound); while (ex.next(cfg)) { execute(cfg, ...res); ex.report(res); }
  class Explorer {
  public:
    Explorer(int threads, int preemptionBound, const std::vector<int> &order = std::vector<int>());
    bool next(ExecConfig &config);          // false when the space is exhausted
    void report(const ExecResult &result);  // must be called after every execution
    size_t executions() const { return executions_; }
    bool diverged() const { return diverged_; }
  private:
    int threads_, bound_;
    std::vector<int> order_;
    std::vector<Choice> last_;
    std::vector<int> prefix_;
    bool first_, done_, diverged_;
    size_t executions_;
  };
}

#endif
