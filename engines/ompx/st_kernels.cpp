// ompx self-test kernels, hand-written in the shape of OCCA's OpenMP translation.
// Compiled with: g++ -O0 -fopenmp -fsanitize=thread -c
extern "C" void st_indep(const int & N, const int * a, int * out) {
#pragma omp parallel for
  for (int o = 0; o < N; ++o) {
    int s[4];
    for (int i = 0; i < 4; ++i) {
      s[i] = a[4 * o + i];
    }
    for (int i = 0; i < 4; ++i) {
      out[4 * o + i] = s[3 - i] + a[0];       // a[0] is read by every thread: read sharing is no race
    }
  }
}

extern "C" void st_shared_scalar(const int & N, int * out) {
  int tmp;
#pragma omp parallel for
  for (int o = 0; o < N; ++o) {
    tmp = o;
    out[o] = tmp;
  }
}

extern "C" void st_atomic_ok(const int & N, int * cnt) {
#pragma omp parallel for
  for (int o = 0; o < N; ++o) {
#pragma omp atomic
    cnt[0] += o + 1;
  }
}

extern "C" void st_lost_update(const int & N, int * cnt) {
#pragma omp parallel for
  for (int o = 0; o < N; ++o) {
    cnt[0] += o + 1;
  }
}

extern "C" void st_critical_ok(const int & N, int * cnt) {
#pragma omp parallel for
  for (int o = 0; o < N; ++o) {
#pragma omp critical
    {
      cnt[1] += 1;
#pragma omp atomic
      cnt[3] += 1;
      cnt[2] = cnt[1] * 10;
    }
  }
}

// the same location updated atomically by even iterations and inside omp critical by odd ones
extern "C" void st_atomic_vs_critical(const int & N, int * cnt) {
#pragma omp parallel for
  for (int o = 0; o < N; ++o) {
    if (o & 1) {
#pragma omp critical
      {
        cnt[0] += 1;
      }
    } else {
#pragma omp atomic
      cnt[0] += 1;
    }
  }
}

extern "C" void st_atomic_vs_plain_read(const int & N, int * cnt, int * out) {
#pragma omp parallel for
  for (int o = 0; o < N; ++o) {
#pragma omp atomic
    cnt[0] += 1;
    out[o] = cnt[0];
  }
}

// no data race (all accesses atomic) but the increment is two operations: updates can be lost
extern "C" void st_split_rmw(const int & N, int * cnt) {
#pragma omp parallel for
  for (int o = 0; o < N; ++o) {
    int v;
#pragma omp atomic read
    v = cnt[0];
#pragma omp atomic write
    cnt[0] = v + 1;
  }
}

extern "C" void st_nested(const int & N, int * out) {
#pragma omp parallel for
  for (int o = 0; o < N; ++o) {
#pragma omp parallel for
    for (int p = 0; p < 2; ++p) {
      out[2 * o + p] = 10 * o + p;
    }
  }
}

// two regions in one kernel; the second reads what the first wrote (ordered by join/fork: no race)
extern "C" void st_two_regions(const int & N, int * out, int * out2) {
#pragma omp parallel for
  for (int o = 0; o < N; ++o) {
    out[o] = o + 1;
  }
#pragma omp parallel for
  for (int o = 0; o < N; ++o) {
    out2[o] = out[N - 1 - o];
  }
}

extern "C" void st_float_atomic(const int & N, float * acc) {
#pragma omp parallel for
  for (int o = 0; o < N; ++o) {
#pragma omp atomic
    acc[0] += 1.0f;
  }
}
