// ompx runtime - see ompx.hpp.  Compile WITHOUT -fsanitize=thread and WITHOUT -fopenmp.
#include "ompx.hpp"

#include <ucontext.h>
#include <sys/mman.h>
#include <cstdio>
#include <cstdlib>
#include <cstring>
#include <unordered_map>

namespace {
  using namespace ompx;

  enum ThreadState { NotStarted, Runnable, Blocked, Done };
  enum YieldReason { Finished, WaitLock, Preempted };

  struct VThread {
    ucontext_t ctx;
    char *map;
    size_t mapSize;
    char *stack;
    size_t stackSize;
    int id;
    ThreadState state;
    int criticalDepth;
    int nested;
  };

  struct ByteState {
    uint64_t r[3], w[3];
    ByteState() { for (int i = 0; i < 3; ++i) r[i] = w[i] = 0; }
  };

  struct Range {
    std::string name;
    uintptr_t lo, hi;
  };

  struct Runtime {
    bool executing;
    ExecConfig cfg;
    ExecResult *res;
    bool inRegion;
    int T;
    std::vector<VThread*> pool;
    int running;               // id of the running virtual thread, -1 in the scheduler
    ucontext_t sched;
    int lockOwner;
    std::unordered_map<uintptr_t, ByteState> bytes;
    void (*fn)(void*);
    void *data;
    YieldReason reason;
    int switchTarget;
    std::vector<Range> ranges;
    std::vector<std::string> raceKeys;
    Runtime() : executing(false), res(0), inRegion(false), T(1), running(-1), lockOwner(-1), fn(0), data(0),
                reason(Finished), switchTarget(-1) {}
    ~Runtime() {
      for (size_t i = 0; i < pool.size(); ++i) {
        munmap(pool[i]->map, pool[i]->mapSize);
        delete pool[i];
      }
    }
  };

  Runtime& rt() {
    static Runtime r;
    return r;
  }

  const size_t STACK_BYTES = 256 * 1024;

  VThread* newThread() {
    VThread *t = new VThread();
    const size_t page = 4096;
    t->stackSize = STACK_BYTES;
    t->mapSize = STACK_BYTES + page;
    void *m = mmap(0, t->mapSize, PROT_READ | PROT_WRITE, MAP_PRIVATE | MAP_ANONYMOUS, -1, 0);
    if (m == MAP_FAILED) {
      std::fprintf(stderr, "ompx: cannot allocate a thread stack\n");
      std::abort();
    }
    mprotect(m, page, PROT_NONE);
    t->map = (char*) m;
    t->stack = t->map + page;
    return t;
  }

  void fail(const std::string &msg) {
    Runtime &r = rt();
    if (r.res && r.res->error.empty()) r.res->error = msg;
  }

  // ---- choices
  int choose(char kind, int nopts) {
    Runtime &r = rt();
    if (nopts <= 1) return 0;
    const size_t k = r.res->trace.size();
    int c = 0;
    if (k < r.cfg.prefix.size()) {
      c = r.cfg.prefix[k];
      if (c < 0 || c >= nopts) {
        r.res->divergence = true;
        c = 0;
      }
    }
    Choice ch;
    ch.options = nopts;
    ch.chosen = c;
    ch.kind = kind;
    r.res->trace.push_back(ch);
    return c;
  }

  // enabled threads (not blocked, not done), in cfg.order if given, without `except`
  void enabledThreads(int except, std::vector<int> &out) {
    Runtime &r = rt();
    out.clear();
    const bool useOrder = ((int) r.cfg.order.size() == r.T);
    for (int k = 0; k < r.T; ++k) {
      const int id = useOrder ? r.cfg.order[k] : k;
      if (id < 0 || id >= r.T || id == except) continue;
      const ThreadState s = r.pool[id]->state;
      if (s == NotStarted || s == Runnable) out.push_back(id);
    }
  }

  void yieldToScheduler(YieldReason why) {
    Runtime &r = rt();
    VThread &t = *r.pool[r.running];
    r.reason = why;
    swapcontext(&t.ctx, &r.sched);
  }

  void trampoline() {
    Runtime &r = rt();
    VThread &t = *r.pool[r.running];
    r.fn(r.data);
    if (t.criticalDepth) fail("virtual thread finished inside omp critical");
    t.state = Done;
    yieldToScheduler(Finished);
    std::abort();
  }

  // a visible operation of the running thread is about to happen
  void visibleOp() {
    Runtime &r = rt();
    if (!r.inRegion || r.running < 0) return;
    if ((int) r.res->preemptions >= r.cfg.preemptionBound) return;
    std::vector<int> others;
    enabledThreads(r.running, others);
    if (others.empty()) return;
    const int c = choose('v', 1 + (int) others.size());
    if (c > 0) {
      ++r.res->preemptions;
      r.switchTarget = others[c - 1];
      yieldToScheduler(Preempted);
    }
  }

  std::string describe(uintptr_t a) {
    Runtime &r = rt();
    for (size_t i = 0; i < r.ranges.size(); ++i) {
      if (a >= r.ranges[i].lo && a < r.ranges[i].hi) {
        return r.ranges[i].name + "+" + std::to_string((unsigned long) (a - r.ranges[i].lo));
      }
    }
    for (int k = 0; k < r.T && k < (int) r.pool.size(); ++k) {
      const uintptr_t lo = (uintptr_t) r.pool[k]->stack;
      if (a >= lo && a < lo + r.pool[k]->stackSize) return "stack of thread " + std::to_string(k);
    }
    return "other";
  }

  std::string baseName(const std::string &where) {
    const size_t p = where.find('+');
    return p == std::string::npos ? where : where.substr(0, p);
  }

  void recordRace(uintptr_t a, int ta, bool wa, int ca, int tb, bool wb, int cb) {
    Runtime &r = rt();
    const std::string where = describe(a);
    const std::string key = std::to_string(r.res->regions) + "|" + baseName(where) + "|" + std::to_string(ca) + (wa ? "w" : "r")
                            + std::to_string(cb) + (wb ? "w" : "r");
    for (size_t i = 0; i < r.raceKeys.size(); ++i) {
      if (r.raceKeys[i] == key) return;
    }
    r.raceKeys.push_back(key);
    if (r.res->races.size() >= 16) return;
    Race x;
    x.addr = a; x.threadA = ta; x.threadB = tb; x.writeA = wa; x.writeB = wb; x.catA = ca; x.catB = cb;
    x.region = (int) r.res->regions - 1;
    x.where = where;
    r.res->races.push_back(x);
  }

  inline int lowestBit(uint64_t m) { return __builtin_ctzll(m); }

  void access(const volatile void *p, size_t n, bool write, bool atomic) {
    Runtime &r = rt();
    if (!r.inRegion || r.running < 0) return;
    VThread &t = *r.pool[r.running];
    const int cat = atomic ? Atomic : (t.criticalDepth > 0 ? InCritical : Plain);
    const uint64_t me = uint64_t(1) << t.id;
    ++r.res->accesses;
    const uintptr_t a = (uintptr_t) p;
    for (size_t i = 0; i < n; ++i) {
      ByteState &b = r.bytes[a + i];
      for (int c2 = 0; c2 < 3; ++c2) {
        if ((cat == Atomic && c2 == Atomic) || (cat == InCritical && c2 == InCritical)) continue;
        const uint64_t ow = b.w[c2] & ~me;
        if (ow) recordRace(a + i, lowestBit(ow), true, c2, t.id, write, cat);
        if (write) {
          const uint64_t orr = b.r[c2] & ~me;
          if (orr) recordRace(a + i, lowestBit(orr), false, c2, t.id, write, cat);
        }
      }
      if (write) b.w[cat] |= me; else b.r[cat] |= me;
    }
  }

  void runRegion(void (*fn)(void*), void *data, unsigned numThreads) {
    Runtime &r = rt();
    int T = numThreads ? (int) numThreads : r.cfg.threads;
    if (T < 1) T = 1;
    if (T > 64) { fail("more than 64 virtual threads"); T = 64; }
    r.T = T;
    while ((int) r.pool.size() < T) r.pool.push_back(newThread());
    for (int k = 0; k < T; ++k) {
      VThread &t = *r.pool[k];
      t.id = k;
      t.state = NotStarted;
      t.criticalDepth = 0;
      t.nested = 0;
      getcontext(&t.ctx);
      t.ctx.uc_stack.ss_sp = t.stack;
      t.ctx.uc_stack.ss_size = t.stackSize;
      t.ctx.uc_link = 0;
      makecontext(&t.ctx, (void (*)()) trampoline, 0);
    }
    r.fn = fn;
    r.data = data;
    r.bytes.clear();
    r.lockOwner = -1;
    r.inRegion = true;
    ++r.res->regions;

    std::vector<int> en;
    enabledThreads(-1, en);
    int current = en[choose('s', (int) en.size())];
    while (true) {
      VThread &t = *r.pool[current];
      if (t.state == NotStarted) t.state = Runnable;
      r.running = current;
      ++r.res->steps;
      swapcontext(&r.sched, &t.ctx);
      r.running = -1;
      if (r.reason == Preempted) {
        current = r.switchTarget;
        continue;
      }
      // Finished or WaitLock: pick any enabled thread
      enabledThreads(-1, en);
      if (en.empty()) {
        bool allDone = true;
        for (int k = 0; k < T; ++k) allDone = allDone && (r.pool[k]->state == Done);
        if (!allDone) fail("deadlock: threads wait for the critical lock but nobody can release it");
        break;
      }
      current = en[choose(r.reason == Finished ? 'f' : 'b', (int) en.size())];
    }
    r.inRegion = false;
    r.running = -1;
    r.bytes.clear();
  }
}

namespace ompx {

  void clearRanges() { rt().ranges.clear(); }

  void addRange(const char *name, const void *ptr, size_t bytes) {
    Range x;
    x.name = name;
    x.lo = (uintptr_t) ptr;
    x.hi = x.lo + bytes;
    rt().ranges.push_back(x);
  }

  void execute(const ExecConfig &config, BodyFn body, void *ctx, ExecResult &result) {
    Runtime &r = rt();
    result = ExecResult();
    if (r.executing) {
      result.error = "nested ompx::execute";
      return;
    }
    r.cfg = config;
    r.res = &result;
    r.executing = true;
    r.inRegion = false;
    r.running = -1;
    r.raceKeys.clear();
    body(ctx);
    r.executing = false;
    r.res = 0;
    if (result.trace.size() < config.prefix.size()) {
      result.divergence = true;    // fewer choice points than the forced prefix has entries
    }
  }

  Explorer::Explorer(int threads, int preemptionBound, const std::vector<int> &order) :
    threads_(threads), bound_(preemptionBound), order_(order), first_(true), done_(false), diverged_(false), executions_(0) {}

  bool Explorer::next(ExecConfig &config) {
    if (done_) return false;
    config.threads = threads_;
    config.preemptionBound = bound_;
    config.order = order_;
    if (first_) {
      first_ = false;
      prefix_.clear();
    }
    config.prefix = prefix_;
    return true;
  }

  void Explorer::report(const ExecResult &result) {
    ++executions_;
    if (result.divergence) {
      diverged_ = true;
      done_ = true;
      return;
    }
    // the replayed part must have met the same choice points as the execution it was derived from
    for (size_t k = 0; k < prefix_.size() && k < last_.size(); ++k) {
      if (k >= result.trace.size() || result.trace[k].options != last_[k].options || result.trace[k].kind != last_[k].kind) {
        diverged_ = true;
        done_ = true;
        return;
      }
    }
    last_ = result.trace;
    // next sequence in depth-first order: bump the deepest choice that has an alternative left
    int j = (int) last_.size() - 1;
    while (j >= 0 && last_[j].chosen + 1 >= last_[j].options) --j;
    if (j < 0) {
      done_ = true;
      return;
    }
    prefix_.resize(j + 1);
    for (int k = 0; k < j; ++k) prefix_[k] = last_[k].chosen;
    prefix_[j] = last_[j].chosen + 1;
  }
}

// ------------------------------------------------------------------------------------------
// OpenMP entry points (libgomp ABI subset that g++ emits for OCCA's OpenMP translation)

extern "C" {

  int omp_get_thread_num() {
    Runtime &r = rt();
    if (!r.inRegion || r.running < 0) return 0;
    VThread &t = *r.pool[r.running];
    return t.nested ? 0 : t.id;
  }

  int omp_get_num_threads() {
    Runtime &r = rt();
    if (!r.inRegion || r.running < 0) return 1;
    VThread &t = *r.pool[r.running];
    return t.nested ? 1 : r.T;
  }

  int omp_get_max_threads() {
    Runtime &r = rt();
    return r.executing ? r.cfg.threads : 1;
  }

  int omp_in_parallel() {
    Runtime &r = rt();
    return (r.inRegion && r.running >= 0 && r.T > 1) ? 1 : 0;
  }

  void GOMP_parallel(void (*fn)(void*), void *data, unsigned num_threads, unsigned flags) {
    (void) flags;
    Runtime &r = rt();
    if (!r.executing) {          // not under ompx::execute: a team of one, nothing recorded
      fn(data);
      return;
    }
    if (r.inRegion) {            // nested region: serialised on the encountering virtual thread
      if (r.running < 0) { fail("GOMP_parallel from the scheduler"); return; }
      VThread &t = *r.pool[r.running];
      ++t.nested;
      ++r.res->nestedRegions;
      fn(data);
      --t.nested;
      return;
    }
    runRegion(fn, data, num_threads);
  }

  void GOMP_critical_start() {
    Runtime &r = rt();
    if (!r.inRegion || r.running < 0) return;   // sequential part: no contention possible
    visibleOp();
    VThread &t = *r.pool[r.running];
    if (r.lockOwner == t.id) { fail("omp critical entered recursively"); return; }
    while (r.lockOwner != -1) {
      t.state = Blocked;
      ++r.res->blockedWaits;
      yieldToScheduler(WaitLock);
    }
    r.lockOwner = t.id;
    ++t.criticalDepth;
    ++r.res->criticals;
  }

  void GOMP_critical_end() {
    Runtime &r = rt();
    if (!r.inRegion || r.running < 0) return;
    VThread &t = *r.pool[r.running];
    if (r.lockOwner != t.id || !t.criticalDepth) { fail("omp critical end without start"); return; }
    visibleOp();                 // the owner may be preempted while it still holds the lock: others must wait
    --t.criticalDepth;
    r.lockOwner = -1;
    for (int k = 0; k < r.T; ++k) {
      if (r.pool[k]->state == Blocked) r.pool[k]->state = Runnable;
    }
  }

  // gcc uses these for atomics without a lock-free instruction (e.g. long double): one global lock in
  // libgomp, distinct from the unnamed critical lock.  Modelled as atomic category accesses in between is not
  // possible (the accesses are plain); OCCA kernels in the checked set never need it.
  void GOMP_atomic_start() { fail("GOMP_atomic_start is not modelled"); }
  void GOMP_atomic_end() {}
  void GOMP_critical_name_start(void **p) { (void) p; fail("named omp critical is not modelled"); }
  void GOMP_critical_name_end(void **p) { (void) p; }
  void GOMP_barrier() { fail("omp barrier is not modelled"); }

  // ---- TSan instrumentation callbacks
  void __tsan_init() {}
  void __tsan_func_entry(void *pc) { (void) pc; }
  void __tsan_func_exit() {}
  void __tsan_vptr_update(void **vptr, void *val) { (void) val; access(vptr, sizeof(void*), true, false); }
  void __tsan_vptr_read(void **vptr) { access(vptr, sizeof(void*), false, false); }
  void __tsan_read_range(void *p, unsigned long n) { access(p, n, false, false); }
  void __tsan_write_range(void *p, unsigned long n) { access(p, n, true, false); }

#define OMPX_RW(N) \
  void __tsan_read##N(void *p) { access(p, N, false, false); } \
  void __tsan_write##N(void *p) { access(p, N, true, false); } \
  void __tsan_unaligned_read##N(void *p) { access(p, N, false, false); } \
  void __tsan_unaligned_write##N(void *p) { access(p, N, true, false); } \
  void __tsan_read##N##_pc(void *p, void *pc) { (void) pc; access(p, N, false, false); } \
  void __tsan_write##N##_pc(void *p, void *pc) { (void) pc; access(p, N, true, false); }
  OMPX_RW(1) OMPX_RW(2) OMPX_RW(4) OMPX_RW(8) OMPX_RW(16)
#undef OMPX_RW

  void __tsan_atomic_thread_fence(int mo) { (void) mo; }
  void __tsan_atomic_signal_fence(int mo) { (void) mo; }

#define OMPX_ATOMIC_OPS(BITS, T) \
  T __tsan_atomic##BITS##_load(const volatile T *a, int mo) { (void) mo; visibleOp(); rt_count_atomic(); access(a, sizeof(T), false, true); return *a; } \
  void __tsan_atomic##BITS##_store(volatile T *a, T v, int mo) { (void) mo; visibleOp(); rt_count_atomic(); access(a, sizeof(T), true, true); *a = v; } \
  T __tsan_atomic##BITS##_exchange(volatile T *a, T v, int mo) { (void) mo; visibleOp(); rt_count_atomic(); access(a, sizeof(T), true, true); const T o = *a; *a = v; return o; } \
  T __tsan_atomic##BITS##_fetch_add(volatile T *a, T v, int mo) { (void) mo; visibleOp(); rt_count_atomic(); access(a, sizeof(T), true, true); const T o = *a; *a = (T) (o + v); return o; } \
  T __tsan_atomic##BITS##_fetch_sub(volatile T *a, T v, int mo) { (void) mo; visibleOp(); rt_count_atomic(); access(a, sizeof(T), true, true); const T o = *a; *a = (T) (o - v); return o; } \
  T __tsan_atomic##BITS##_fetch_and(volatile T *a, T v, int mo) { (void) mo; visibleOp(); rt_count_atomic(); access(a, sizeof(T), true, true); const T o = *a; *a = (T) (o & v); return o; } \
  T __tsan_atomic##BITS##_fetch_or(volatile T *a, T v, int mo) { (void) mo; visibleOp(); rt_count_atomic(); access(a, sizeof(T), true, true); const T o = *a; *a = (T) (o | v); return o; } \
  T __tsan_atomic##BITS##_fetch_xor(volatile T *a, T v, int mo) { (void) mo; visibleOp(); rt_count_atomic(); access(a, sizeof(T), true, true); const T o = *a; *a = (T) (o ^ v); return o; } \
  T __tsan_atomic##BITS##_fetch_nand(volatile T *a, T v, int mo) { (void) mo; visibleOp(); rt_count_atomic(); access(a, sizeof(T), true, true); const T o = *a; *a = (T) ~(o & v); return o; } \
  int __tsan_atomic##BITS##_compare_exchange_strong(volatile T *a, T *c, T v, int mo, int fmo) { \
    (void) mo; (void) fmo; visibleOp(); rt_count_atomic(); access(a, sizeof(T), true, true); \
    if (*a == *c) { *a = v; return 1; } *c = *a; return 0; } \
  int __tsan_atomic##BITS##_compare_exchange_weak(volatile T *a, T *c, T v, int mo, int fmo) { \
    return __tsan_atomic##BITS##_compare_exchange_strong(a, c, v, mo, fmo); } \
  T __tsan_atomic##BITS##_compare_exchange_val(volatile T *a, T c, T v, int mo, int fmo) { \
    (void) mo; (void) fmo; visibleOp(); rt_count_atomic(); access(a, sizeof(T), true, true); \
    const T o = *a; if (o == c) *a = v; return o; }

  static inline void rt_count_atomic() {
    Runtime &r = rt();
    if (r.inRegion && r.running >= 0) ++r.res->atomics;
  }

  OMPX_ATOMIC_OPS(8, unsigned char)
  OMPX_ATOMIC_OPS(16, unsigned short)
  OMPX_ATOMIC_OPS(32, unsigned int)
  OMPX_ATOMIC_OPS(64, unsigned long long)
#undef OMPX_ATOMIC_OPS
}
