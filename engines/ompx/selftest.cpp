// ompx self-test: hand-written kernels with known verdicts.  Must print OMPX-SELFTEST PASS.
#include <cstdio>
#include <cstring>
#include <functional>
#include <set>
#include <string>
#include <vector>
#include "ompx.hpp"

extern "C" {
  void st_indep(const int & N, const int * a, int * out);
  void st_shared_scalar(const int & N, int * out);
  void st_atomic_ok(const int & N, int * cnt);
  void st_lost_update(const int & N, int * cnt);
  void st_critical_ok(const int & N, int * cnt);
  void st_atomic_vs_critical(const int & N, int * cnt);
  void st_atomic_vs_plain_read(const int & N, int * cnt, int * out);
  void st_split_rmw(const int & N, int * cnt);
  void st_nested(const int & N, int * out);
  void st_two_regions(const int & N, int * out, int * out2);
  void st_float_atomic(const int & N, float * acc);
}

static int failures = 0;
#define CHECK(cond, ...) do { if (!(cond)) { ++failures; std::printf("FAIL %s:%d: ", __FILE__, __LINE__); std::printf(__VA_ARGS__); std::printf("\n"); } } while (0)

struct Summary {
  size_t executions, racy, steps, maxBlocked, maxPreempt, atomics, criticals, nested, regions;
  std::set<std::vector<int> > outcomes;
  std::set<std::string> raceKinds;
  bool diverged;
  std::string error;
};

static void call(void *ctx) { (*(std::function<void()>*) ctx)(); }

// explore all schedules of `body` (fresh state via `reset` before each execution, outcome via `observe`)
static Summary explore(int T, int bound, std::function<void()> reset, std::function<void()> body,
                       std::function<std::vector<int>()> observe, const std::vector<int> &order = std::vector<int>()) {
  Summary s = Summary();
  ompx::Explorer ex(T, bound, order);
  ompx::ExecConfig cfg;
  while (ex.next(cfg)) {
    reset();
    ompx::ExecResult res;
    ompx::execute(cfg, call, &body, res);
    ex.report(res);
    ++s.executions;
    s.racy += !res.races.empty();
    s.steps += res.steps;
    s.atomics += res.atomics;
    s.criticals += res.criticals;
    s.nested += res.nestedRegions;
    s.regions += res.regions;
    if (res.blockedWaits > s.maxBlocked) s.maxBlocked = res.blockedWaits;
    if (res.preemptions > s.maxPreempt) s.maxPreempt = res.preemptions;
    for (size_t i = 0; i < res.races.size(); ++i) {
      const ompx::Race &r = res.races[i];
      s.raceKinds.insert(r.where.substr(0, r.where.find('+')) + ":" + std::to_string(r.catA) + (r.writeA ? "w" : "r") + std::to_string(r.catB) + (r.writeB ? "w" : "r"));
    }
    if (!res.error.empty()) s.error = res.error;
    s.outcomes.insert(observe());
    if (s.executions > 2000000) break;
  }
  s.diverged = ex.diverged();
  return s;
}

int main() {
  int N = 4;
  std::vector<int> a(16), out(16), out2(16), cnt(4);
  for (int k = 0; k < 16; ++k) a[k] = 3 * k + 1;
  auto reset = [&]() { std::fill(out.begin(), out.end(), -1); std::fill(out2.begin(), out2.end(), -1); std::fill(cnt.begin(), cnt.end(), 0); };
  ompx::clearRanges();
  ompx::addRange("a", &a[0], 64);
  ompx::addRange("out", &out[0], 64);
  ompx::addRange("out2", &out2[0], 64);
  ompx::addRange("cnt", &cnt[0], 16);

  // 1. independent iterations, private stack arrays, read sharing: no race, one outcome, T! executions
  for (int T = 1; T <= 4; ++T) {
    Summary s = explore(T, 2, reset, [&]() { st_indep(N, &a[0], &out[0]); }, [&]() { return out; });
    size_t fact = 1; for (int k = 2; k <= T; ++k) fact *= k;
    CHECK(s.executions == fact, "indep T=%d: %zu executions, expected %zu", T, s.executions, fact);
    CHECK(s.racy == 0 && s.outcomes.size() == 1 && !s.diverged && s.error.empty(), "indep T=%d: racy=%zu outcomes=%zu", T, s.racy, s.outcomes.size());
    bool good = true;
    for (int o = 0; o < 4; ++o) for (int i = 0; i < 4; ++i) good = good && (out[4 * o + i] == a[4 * o + 3 - i] + a[0]);
    CHECK(good, "indep T=%d: wrong result", T);
  }
  // fixed order for a large team
  {
    int N8 = 4;
    std::vector<int> order; for (int k = 5; k >= 0; --k) order.push_back(k);
    Summary s = explore(6, 0, reset, [&]() { st_indep(N8, &a[0], &out[0]); }, [&]() { return out; }, order);
    CHECK(s.executions == 720 && s.racy == 0 && s.outcomes.size() == 1, "indep T=6: %zu executions", s.executions);
  }
  // 2. a scalar declared outside the parallel loop is shared: write-write race on the caller's frame
  {
    Summary s = explore(2, 0, reset, [&]() { st_shared_scalar(N, &out[0]); }, [&]() { return out; });
    CHECK(s.racy == s.executions && s.executions == 2, "shared scalar: racy %zu of %zu", s.racy, s.executions);
    CHECK(s.raceKinds.count("other:0w0w") == 1, "shared scalar: kinds");
    Summary s1 = explore(1, 0, reset, [&]() { st_shared_scalar(N, &out[0]); }, [&]() { return out; });
    CHECK(s1.racy == 0, "one thread can not race");
  }
  // 3. omp atomic: no race, one outcome under every schedule with <= 2 preemptions
  {
    Summary s = explore(3, 2, reset, [&]() { st_atomic_ok(N, &cnt[0]); }, [&]() { return cnt; });
    CHECK(s.racy == 0 && s.outcomes.size() == 1 && cnt[0] == 10, "atomic ok: racy=%zu outcomes=%zu cnt=%d", s.racy, s.outcomes.size(), cnt[0]);
    CHECK(s.executions > 6 && s.maxPreempt == 2 && !s.diverged, "atomic ok: %zu executions, max preemptions %zu", s.executions, s.maxPreempt);
    Summary s0 = explore(3, 0, reset, [&]() { st_atomic_ok(N, &cnt[0]); }, [&]() { return cnt; });
    CHECK(s0.executions == 6, "atomic ok bound 0: %zu executions", s0.executions);
  }
  // 4. the same update without the pragma: race in every execution
  {
    Summary s = explore(2, 1, reset, [&]() { st_lost_update(N, &cnt[0]); }, [&]() { return cnt; });
    CHECK(s.racy == s.executions && s.raceKinds.count("cnt:0w0w"), "lost update: racy %zu of %zu", s.racy, s.executions);
  }
  // 5. omp critical (with an atomic inside, so that the owner can be preempted): no race, lock waits happen
  {
    Summary s = explore(3, 2, reset, [&]() { st_critical_ok(N, &cnt[0]); }, [&]() { return cnt; });
    CHECK(s.racy == 0 && s.outcomes.size() == 1 && s.error.empty(), "critical ok: racy=%zu outcomes=%zu %s", s.racy, s.outcomes.size(), s.error.c_str());
    CHECK(cnt[1] == 4 && cnt[2] == 40 && cnt[3] == 4, "critical ok: %d %d %d", cnt[1], cnt[2], cnt[3]);
    CHECK(s.maxBlocked > 0, "critical ok: the lock was never contended");
  }
  // 6. atomic in one thread, critical in the other: race
  {
    Summary s = explore(2, 0, reset, [&]() { st_atomic_vs_critical(N, &cnt[0]); }, [&]() { return cnt; });
    CHECK(s.racy == s.executions, "atomic vs critical: racy %zu of %zu", s.racy, s.executions);
  }
  // 7. atomic update vs plain read: race
  {
    Summary s = explore(2, 0, reset, [&]() { st_atomic_vs_plain_read(N, &cnt[0], &out[0]); }, [&]() { return cnt; });
    CHECK(s.racy == s.executions, "atomic vs plain read: racy %zu of %zu", s.racy, s.executions);
  }
  // 8. split read-modify-write: race free, but schedules with a preemption lose updates
  {
    Summary s0 = explore(2, 0, reset, [&]() { st_split_rmw(N, &cnt[0]); }, [&]() { return cnt; });
    CHECK(s0.racy == 0 && s0.outcomes.size() == 1, "split rmw bound 0: outcomes %zu", s0.outcomes.size());
    Summary s1 = explore(2, 1, reset, [&]() { st_split_rmw(N, &cnt[0]); }, [&]() { return cnt; });
    CHECK(s1.racy == 0 && s1.outcomes.size() > 1, "split rmw bound 1 must show lost updates: outcomes %zu", s1.outcomes.size());
  }
  // 9. nested region: serialised on the encountering thread
  {
    Summary s = explore(2, 0, reset, [&]() { st_nested(N, &out[0]); }, [&]() { return out; });
    CHECK(s.racy == 0 && s.outcomes.size() == 1 && s.nested == 2 * 4 && out[7] == 31, "nested: racy=%zu nested=%zu out[7]=%d", s.racy, s.nested, out[7]);
  }
  // 10. two regions: join/fork orders them
  {
    Summary s = explore(3, 0, reset, [&]() { st_two_regions(N, &out[0], &out2[0]); }, [&]() { return out2; });
    CHECK(s.racy == 0 && s.outcomes.size() == 1 && s.executions == 36 && out2[0] == 4 && s.regions == 72, "two regions: racy=%zu exec=%zu", s.racy, s.executions);
  }
  // 11. float atomic (compare-exchange loop)
  {
    float acc[1];
    Summary s = explore(2, 1, [&]() { acc[0] = 0.f; }, [&]() { st_float_atomic(N, acc); }, [&]() { return std::vector<int>(1, (int) acc[0]); });
    CHECK(s.racy == 0 && s.outcomes.size() == 1 && acc[0] == 4.f && s.error.empty(), "float atomic: racy=%zu outcomes=%zu acc=%g %s", s.racy, s.outcomes.size(), acc[0], s.error.c_str());
  }
  // 12. outside of ompx::execute the runtime is a team of one
  {
    reset();
    st_indep(N, &a[0], &out[0]);
    CHECK(out[0] == a[3] + a[0], "plain call");
  }
  if (failures) {
    std::printf("OMPX-SELFTEST FAIL (%d)\n", failures);
    return 1;
  }
  std::printf("OMPX-SELFTEST PASS\n");
  return 0;
}
