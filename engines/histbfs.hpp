// E1 histbfs - explicit-state BFS over operation histories of the *real* implementation.
//
// Live objects are not copyable, so a state *is* the history that reaches it: every transition
// (history h, op o) is evaluated by building a fresh System, replaying h and applying o.  The
// Python side (vlib/histbfs.py) owns the frontier, de-duplicates on canon() and attributes
// crashes (it sees the last "P" line of a dead worker).
//
// A System provides:
//   System(hb::Ctx&)                 fresh implementation objects + fresh reference model
//   std::vector<hb::Op> enabled()    operations enabled in the current state (model side)
//   void apply(const hb::Op&)        run op on implementation and model, evaluate the oracle,
//                                    report failures through ctx.fail(signature, detail)
//   std::string canon()              canonical key of everything the future depends on
//   void finish()                    closing oracle (e.g. release everything, counters at zero)
//   static std::string name(Op)      readable form
#pragma once
#include <cstdio>
#include <cstdlib>
#include <cstring>
#include <exception>
#include <fstream>
#include <iostream>
#include <sstream>
#include <string>
#include <typeinfo>
#include <vector>

namespace hb {
  struct Op {
    int k = 0, a = 0, b = 0, c = 0;
    Op() {}
    Op(int k_, int a_ = 0, int b_ = 0, int c_ = 0) : k(k_), a(a_), b(b_), c(c_) {}
  };

  inline std::string opStr(const Op &o) {
    char buf[96];
    snprintf(buf, sizeof(buf), "%d,%d,%d,%d", o.k, o.a, o.b, o.c);
    return buf;
  }

  inline std::vector<Op> parseHistory(const std::string &s) {
    std::vector<Op> h;
    size_t i = 0;
    while (i < s.size()) {
      size_t j = s.find(';', i);
      if (j == std::string::npos) j = s.size();
      if (j > i) {
        Op o;
        sscanf(s.substr(i, j - i).c_str(), "%d,%d,%d,%d", &o.k, &o.a, &o.b, &o.c);
        h.push_back(o);
      }
      i = j + 1;
    }
    return h;
  }

  inline std::string oneLine(std::string s) {
    for (auto &ch : s) if (ch == '\n' || ch == '\r' || ch == '\t') ch = ' ';
    if (s.size() > 600) s = s.substr(0, 600) + "...";
    return s;
  }

  struct Ctx {
    std::vector<std::pair<std::string, std::string> > fails;
    bool judging = true;       // false while replaying a prefix (already judged when it was explored)
    void fail(const std::string &sig, const std::string &detail) {
      if (judging) fails.push_back(std::make_pair(sig, oneLine(detail)));
    }
  };

  // Run `h` then (optionally) `last` on a fresh system; returns canon; fills ctx.fails for `last` only.
  template <class Sys>
  std::string runHistory(const std::vector<Op> &h, const Op *last, Ctx &ctx, std::vector<Op> *enabledOut) {
    std::string key;
    {
      Sys sys(ctx);
      ctx.judging = false;
      for (const Op &o : h) sys.apply(o);
      ctx.judging = true;
      if (last) {
        try {
          sys.apply(*last);
        } catch (std::exception &e) {
          ctx.fail(std::string("uncaught-exception:") + Sys::kindName(*last), e.what());
        } catch (...) {
          ctx.fail(std::string("uncaught-exception:") + Sys::kindName(*last), "non-std exception");
        }
      }
      if (ctx.fails.empty()) {
        key = sys.canon();
        if (enabledOut) *enabledOut = sys.enabled();
        if (last) sys.finish();
      }
    }
    return key;
  }

  template <class Sys>
  int main(int argc, char **argv) {
    if (argc < 3) {
      fprintf(stderr, "usage: %s expand <file> | replay <history> | describe <history>\n", argv[0]);
      return 2;
    }
    std::string mode = argv[1];
    setvbuf(stdout, NULL, _IOLBF, 0);
    if (mode == "describe") {
      std::vector<Op> h = parseHistory(argv[2]);
      std::string out;
      for (size_t i = 0; i < h.size(); ++i) out += (i ? "; " : "") + Sys::name(h[i]);
      printf("%s\n", out.c_str());
      return 0;
    }
    if (mode == "replay") {
      std::vector<Op> h = parseHistory(argv[2]);
      int bad = 0;
      for (size_t n = 0; n <= h.size(); ++n) {
        std::vector<Op> pre(h.begin(), h.begin() + (n ? n - 1 : 0));
        Ctx ctx;
        std::string key = runHistory<Sys>(pre, n ? &h[n - 1] : NULL, ctx, NULL);
        printf("step %zu %s\n  canon: %s\n", n, n ? Sys::name(h[n - 1]).c_str() : "(init)", key.c_str());
        for (auto &f : ctx.fails) { printf("  FAIL %s :: %s\n", f.first.c_str(), f.second.c_str()); bad++; }
        if (bad) break;
      }
      printf("replay: %s\n", bad ? "VIOLATION" : "ok");
      return bad ? 1 : 0;
    }
    if (mode != "expand") return 2;
    std::ifstream in(argv[2]);
    std::string line;
    long idx = 0;
    while (std::getline(in, line)) {
      // item: <history>[|skip=<n>]
      int skip = 0;
      size_t bar = line.find('|');
      if (bar != std::string::npos) {
        sscanf(line.c_str() + bar, "|skip=%d", &skip);
        line = line.substr(0, bar);
      }
      std::vector<Op> h = parseHistory(line);
      printf("BEGIN %ld\n", idx);
      Ctx ctx0;
      std::vector<Op> en;
      std::string key0 = runHistory<Sys>(h, NULL, ctx0, &en);
      printf("S %s\n", key0.c_str());
      printf("N %zu\n", en.size());
      for (size_t i = skip; i < en.size(); ++i) {
        printf("P %zu %s\n", i, opStr(en[i]).c_str());
        Ctx ctx;
        std::string key = runHistory<Sys>(h, &en[i], ctx, NULL);
        if (ctx.fails.empty()) {
          printf("T %s %s\n", opStr(en[i]).c_str(), key.c_str());
        } else {
          for (auto &f : ctx.fails)
            printf("V %s %s\t%s\n", opStr(en[i]).c_str(), f.first.c_str(), f.second.c_str());
        }
      }
      printf("END %ld\n", idx);
      ++idx;
    }
    return 0;
  }
}
