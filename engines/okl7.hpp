// okl7.hpp - run one OKL program text through the seven real OKL translators in-process (E2 drivers of C16 / C22).
//
//   okl7::Result r = okl7::run(modeIndex, text, freshParser);
//     r.status : 'S' parser.succeeded()            (translation available: r.outBytes / r.outHash)
//                'F' returned with success == false (r.errors = number of "Error" messages printed, r.firstError)
//                'X' threw occa::exception          (r.firstError = message)
//                'E' threw another std::exception   (r.firstError = what())
//                '?' threw something else
//   All error text of libocca (io::stderr / io::stdout) is captured through io::output::setOverride, nothing is printed.
//
// Parsers are constructed once per process and reused (parseSource() starts with clear()); `fresh` constructs a new
// parser for the call instead (the way occa::device builds kernels: one parser per kernel file) - used by replays and by
// the solo re-runs that confirm a crash.
#ifndef VP_OKL7_HPP
#define VP_OKL7_HPP

#include <cstdio>
#include <cstring>
#include <string>
#include <vector>

#include <occa/internal/io/output.hpp>
#include <occa/internal/lang/modes/serial.hpp>
#include <occa/internal/lang/modes/openmp.hpp>
#include <occa/internal/lang/modes/cuda.hpp>
#include <occa/internal/lang/modes/hip.hpp>
#include <occa/internal/lang/modes/opencl.hpp>
#include <occa/internal/lang/modes/metal.hpp>
#include <occa/internal/lang/modes/dpcpp.hpp>
#include <occa/utils/exception.hpp>

namespace okl7 {
  static const int MODES = 7;
  static const char *modeNames[MODES] = {"serial", "openmp", "cuda", "hip", "opencl", "metal", "dpcpp"};

  inline bool isLaunched(int m) { return m >= 2; }

  inline occa::lang::parser_t* makeParser(int m) {
    occa::json props;
    props["mode"] = modeNames[m];
    switch (m) {
      case 0: return new occa::lang::okl::serialParser(props);
      case 1: return new occa::lang::okl::openmpParser(props);
      case 2: return new occa::lang::okl::cudaParser(props);
      case 3: return new occa::lang::okl::hipParser(props);
      case 4: return new occa::lang::okl::openclParser(props);
      case 5: return new occa::lang::okl::metalParser(props);
      case 6: return new occa::lang::okl::dpcppParser(props);
    }
    return NULL;
  }

  inline std::string& captured() { static std::string s; return s; }
  inline void capture(const char *str) {
    std::string &c = captured();
    if (c.size() < (1u << 16)) c += str;
  }
  inline void installCapture() {
    occa::io::stderr.setOverride(capture);
    occa::io::stdout.setOverride(capture);
  }

  inline unsigned long long fnv(const std::string &s) {
    unsigned long long h = 1469598103934665603ULL;
    for (unsigned char c : s) { h ^= c; h *= 1099511628211ULL; }
    return h;
  }

  inline std::string hexOf(const std::string &s) {
    static const char *d = "0123456789abcdef";
    std::string r;
    r.reserve(2 * s.size() + 1);
    for (unsigned char c : s) { r += d[c >> 4]; r += d[c & 15]; }
    if (r.empty()) r = "-";
    return r;
  }

  inline std::string unhex(const std::string &h) {
    std::string r;
    if (h == "-") return r;
    r.reserve(h.size() / 2);
    for (size_t i = 0; i + 1 < h.size(); i += 2) {
      auto v = [](char c) { return c <= '9' ? c - '0' : (c | 32) - 'a' + 10; };
      r += (char) ((v(h[i]) << 4) | v(h[i + 1]));
    }
    return r;
  }

  struct Result {
    char status;
    int errors;
    std::string firstError;   // first line that contains "Error" (message text only), or exception text
    size_t outBytes;
    unsigned long long outHash;
    std::string out;          // translation (kept only when asked)
    std::string launcher;
    Result() : status('?'), errors(0), outBytes(0), outHash(0) {}
  };

  // "file:line:col: Error: message" -> "message" (first one), count of errors
  inline void scanErrors(const std::string &text, int &count, std::string &first) {
    count = 0;
    size_t pos = 0;
    while ((pos = text.find("Error", pos)) != std::string::npos) {
      ++count;
      if (count == 1) {
        size_t e = text.find('\n', pos);
        size_t b = pos + 5;
        while (b < text.size() && (text[b] == ':' || text[b] == ' ')) ++b;
        first = text.substr(b, (e == std::string::npos ? text.size() : e) - b);
        if (first.size() > 160) first.resize(160);
      }
      pos += 5;
    }
  }

  inline occa::lang::parser_t* cachedParser(int m) {
    static occa::lang::parser_t *P[MODES] = {0, 0, 0, 0, 0, 0, 0};
    if (!P[m]) P[m] = makeParser(m);
    return P[m];
  }

  inline Result run(int m, const std::string &text, bool fresh, bool keepOutput = false) {
    Result r;
    captured().clear();
    occa::lang::parser_t *parser = fresh ? makeParser(m) : cachedParser(m);
    try {
      parser->parseSource(text);
      if (parser->succeeded()) {
        r.status = 'S';
        std::string out = parser->toString();
        if (isLaunched(m)) {
          std::string l = ((occa::lang::okl::withLauncher*) parser)->launcherParser.toString();
          if (keepOutput) r.launcher = l;
          out += "\n//---launcher---\n";
          out += l;
        }
        r.outBytes = out.size();
        r.outHash = fnv(out);
        if (keepOutput) r.out = out;
      } else {
        r.status = 'F';
        scanErrors(captured(), r.errors, r.firstError);
      }
    } catch (occa::exception &e) {
      r.status = 'X';
      r.firstError = e.message;
      if (r.firstError.size() > 160) r.firstError.resize(160);
    } catch (std::exception &e) {
      r.status = 'E';
      r.firstError = e.what();
    } catch (...) {
      r.status = '?';
    }
    if (fresh) {
      try { delete parser; } catch (occa::exception &e) { if (r.status == 'S' || r.status == 'F') { r.status = 'X'; r.firstError = "in destructor: " + e.message; } }
    }
    return r;
  }
}

#endif
