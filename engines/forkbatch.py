"""Python side of engines/forkbatch.hpp: read XCRASH/XSTDERR observations out of vlib.batch results,
symbolize sanitizer frames lazily (ASan runs with symbolize=0 because in-process symbolization of the big
libocca.so costs seconds per crashing worker), derive stable crash signatures."""
import os, re, subprocess

_FRAME = re.compile(r"#(\d+) 0x[0-9a-f]+\s+\((\S+?)\+0x([0-9a-f]+)\)")
_cache = {}


def asan_env(env):
    """Return env with ASan symbolization switched off (frames are symbolized by symbolize() on demand)."""
    e = dict(env)
    # small quarantine + no allocation stacks: an item loop that allocates a lot otherwise never reuses memory (256 MB
    # default quarantine) and unwinds the stack on every malloc/free - measured 10x slower.  Limit: a use-after-free is
    # only detected while the block is still in the (1 MB) quarantine.
    e["ASAN_OPTIONS"] = e.get("ASAN_OPTIONS", "") + ":symbolize=0:malloc_context_size=0:quarantine_size_mb=1:thread_local_quarantine_size_kb=64"
    return e


def crash_of(r):
    """(crash description | None, stderr text) of a vlib.batch ItemResult produced by a forkbatch driver."""
    crash, err = r.crash, r.stderr
    for ln in r.lines:
        if ln.startswith("XCRASH "):
            crash = ln[7:].strip()
        elif ln.startswith("XSTDERR "):
            h = ln[8:].strip()
            err = "" if h == "-" else bytes.fromhex(h).decode("utf-8", "replace")
    return crash, err


def _addr2line(module, offsets):
    need = [o for o in offsets if (module, o) not in _cache]
    if need and os.path.exists(module):
        p = subprocess.run(["addr2line", "-f", "-C", "-e", module] + ["0x" + o for o in need],
                           stdout=subprocess.PIPE, stderr=subprocess.DEVNULL, text=True)
        out = p.stdout.split("\n")
        for i, o in enumerate(need):
            fn = out[2 * i] if 2 * i < len(out) else "??"
            loc = out[2 * i + 1] if 2 * i + 1 < len(out) else "??"
            _cache[(module, o)] = (fn, loc)
    for o in need:
        _cache.setdefault((module, o), ("??", "??"))


def symbolize(stderr, max_frames=8):
    """Replace '(module+0xoff)' of the first frames of a sanitizer report by 'in function file:line'."""
    if not stderr:
        return stderr or ""
    frames = _FRAME.findall(stderr)[:max_frames]
    by_mod = {}
    for (_n, mod, off) in frames:
        by_mod.setdefault(mod, []).append(off)
    for mod, offs in by_mod.items():
        _addr2line(mod, offs)

    def rep(m):
        key = (m.group(2), m.group(3))
        if key in _cache:
            fn, loc = _cache[key]
            return "#%s in %s %s" % (m.group(1), fn, loc)
        return m.group(0)
    return _FRAME.sub(rep, stderr)


def crash_signature(crash, stderr_symbolized):
    """crash:<sanitizer error kind | signal | timeout>:<innermost occa:: function>"""
    kind = crash or "crash"
    st = stderr_symbolized or ""
    m = re.search(r"ERROR: AddressSanitizer: ([A-Za-z0-9_-]+)", st)
    if m:
        kind = m.group(1)
    elif crash == "timeout":
        kind = "timeout"
    elif crash and crash.startswith("signal:"):
        kind = {"8": "SIGFPE", "11": "SIGSEGV", "6": "SIGABRT", "4": "SIGILL", "7": "SIGBUS"}.get(crash[7:], crash)
    fn = "?"
    for m in re.finditer(r"#\d+ (?:0x[0-9a-f]+ )?in ([^\n]*)", st):
        f = m.group(1)
        if "occa::" in f:
            fn = re.sub(r"\(.*", "", f).strip()
            fn = re.sub(r"\s+/.*", "", fn)
            break
    return "crash:%s:%s" % (kind, fn)
