// E4 thr - serialising thread scheduler for the ENABLE_SHARABLE_DEVICE build (C30).
//
// Include this header in exactly one translation unit of the harness executable.  It defines
// pthread_mutex_lock / pthread_mutex_unlock / pthread_mutex_trylock in the executable, so every call from
// libocca.so (through the PLT) lands here.  While an exploration is active and the caller is a
// scheduled thread, the mutex is *modelled* (ownership table; a contended lock disables the thread
// instead of spinning) and every lock/unlock is a scheduling point; otherwise the call goes to libc.
//
// Exactly one scheduled thread runs at any time (hand-off through semaphores), so an execution is a
// deterministic function of the choice sequence given to vt::run().  Canonical order of the enabled
// list at a point: the running thread first if it is still enabled, then ascending ids; choice 0 =
// "keep running" (no preemption).
//
// Scheduling points: before acquiring a mutex, after releasing one, thread start, thread exit.
// Unsynchronised accesses are NOT scheduling points - they are the business of the separate
// free-running ThreadSanitizer pass.
#pragma once
#include <dlfcn.h>
#include <pthread.h>
#include <semaphore.h>
#include <cstdio>
#include <cstdlib>
#include <cstring>
#include <functional>
#include <map>
#include <string>
#include <vector>
#include <unistd.h>

namespace vt {
  typedef int (*mutex_fn)(pthread_mutex_t *);
  static mutex_fn realLock = NULL, realUnlock = NULL, realTrylock = NULL;

  struct Thread {
    int id;
    pthread_t pt;
    std::function<void()> fn;
    sem_t sem;
    bool finished;
    void *blockedOn;
  };

  struct Point {
    std::vector<int> enabled;
    bool runningEnabled;
    int chosen;
    std::string kind;
  };

  static std::vector<Thread *> threads;
  static std::vector<int> choices;        // given prefix
  static std::vector<Point> points;       // recorded
  static std::map<void *, int> owner;     // modelled mutexes -> owner thread id
  static std::map<void *, int> mutexIds;  // stable small ids for printing
  static bool active = false;
  static int current = -1;
  static int mainWaiting = 0;
  static sem_t mainSem;
  static bool deadlock = false;
  static int misuse = 0;                  // unlock of a mutex owned by another thread / not owned
  static thread_local int self = -1;

  static void resolve() {
    if (!realLock) {
      realLock = (mutex_fn) dlsym(RTLD_NEXT, "pthread_mutex_lock");
      realUnlock = (mutex_fn) dlsym(RTLD_NEXT, "pthread_mutex_unlock");
      realTrylock = (mutex_fn) dlsym(RTLD_NEXT, "pthread_mutex_trylock");
    }
  }

  static int mutexId(void *m) {
    std::map<void *, int>::iterator it = mutexIds.find(m);
    if (it != mutexIds.end()) return it->second;
    int id = (int) mutexIds.size();
    mutexIds[m] = id;
    return id;
  }

  static bool isEnabled(Thread *t) {
    if (t->finished) return false;
    if (t->blockedOn && owner.count(t->blockedOn)) return false;
    return true;
  }

  static void dumpAndExit(int code);
  static void printPoint(size_t i);

  // Called by the running thread. Picks the next thread to run and hands over if needed.
  static void schedule(const char *kind, void *obj) {
    Thread *me = threads[self];
    std::vector<int> enabled;
    bool runningEnabled = isEnabled(me);
    if (runningEnabled) enabled.push_back(self);
    for (Thread *t : threads)
      if (t->id != self && isEnabled(t)) enabled.push_back(t->id);
    if (enabled.empty()) {
      bool allDone = true;
      for (Thread *t : threads) allDone = allDone && t->finished;
      if (allDone) {          // last thread exits: wake main
        active = false;
        sem_post(&mainSem);
        return;
      }
      deadlock = true;
      dumpAndExit(3);
    }
    size_t step = points.size();
    int choice = step < choices.size() ? choices[step] : 0;
    if (choice < 0 || choice >= (int) enabled.size()) {
      fprintf(stdout, "DIVERGED step=%zu choice=%d enabled=%zu\n", step, choice, enabled.size());
      dumpAndExit(4);
    }
    Point p;
    p.enabled = enabled;
    p.runningEnabled = runningEnabled;
    p.chosen = enabled[choice];
    char buf[64];
    if (obj) snprintf(buf, sizeof buf, "%s(m%d)", kind, mutexId(obj)); else snprintf(buf, sizeof buf, "%s", kind);
    p.kind = buf;
    points.push_back(p);
    printPoint(points.size() - 1);
    int next = enabled[choice];
    if (next == self) return;
    current = next;
    sem_post(&threads[next]->sem);
    if (!me->finished) {
      sem_wait(&me->sem);      // wait until scheduled again
    }
  }

  static void *trampoline(void *arg) {
    Thread *t = (Thread *) arg;
    self = t->id;
    sem_wait(&t->sem);          // wait for first scheduling
    t->fn();
    t->finished = true;
    schedule("exit", NULL);
    return NULL;
  }

  // points are printed as they happen, so the trace survives a crash of the execution
  static void printPoint(size_t i) {
    const Point &p = points[i];
    char line[256];
    int n = snprintf(line, sizeof line, "POINT %zu re=%d chosen=%d kind=%s enabled=", i, p.runningEnabled ? 1 : 0, p.chosen, p.kind.c_str());
    for (size_t j = 0; j < p.enabled.size() && n < 240; ++j) n += snprintf(line + n, sizeof line - n, "%s%d", j ? "," : "", p.enabled[j]);
    line[n++] = '\n';
    ssize_t w = write(1, line, n);
    (void) w;
  }

  static void printTrace() {}

  static void dumpAndExit(int code) {
    printTrace();
    if (deadlock) printf("DEADLOCK\n");
    fflush(stdout);
    _exit(code);
  }

  // Run the bodies as scheduled threads following `prefix`; returns when all have finished.
  static void run(const std::vector<std::function<void()> > &bodies, const std::vector<int> &prefix) {
    resolve();
    choices = prefix;
    points.clear();
    owner.clear();
    sem_init(&mainSem, 0, 0);
    for (size_t i = 0; i < bodies.size(); ++i) {
      Thread *t = new Thread();
      t->id = (int) i;
      t->fn = bodies[i];
      t->finished = false;
      t->blockedOn = NULL;
      sem_init(&t->sem, 0, 0);
      threads.push_back(t);
    }
    for (Thread *t : threads) pthread_create(&t->pt, NULL, trampoline, t);
    active = true;
    // initial point: main is blocked in join, all threads enabled; canonical order ascending
    {
      std::vector<int> enabled;
      for (Thread *t : threads) enabled.push_back(t->id);
      int choice = choices.size() > 0 ? choices[0] : 0;
      if (choice >= (int) enabled.size()) { printf("DIVERGED step=0\n"); dumpAndExit(4); }
      Point p; p.enabled = enabled; p.runningEnabled = false; p.chosen = enabled[choice]; p.kind = "start";
      points.push_back(p);
      printPoint(0);
      current = enabled[choice];
      sem_post(&threads[current]->sem);
    }
    sem_wait(&mainSem);
    for (Thread *t : threads) pthread_join(t->pt, NULL);
    active = false;
  }
}

extern "C" int pthread_mutex_lock(pthread_mutex_t *m) {
  vt::resolve();
  if (!vt::active || vt::self < 0) return vt::realLock(m);
  vt::Thread *me = vt::threads[vt::self];
  vt::schedule("lock", m);                 // scheduling point before the acquisition
  while (vt::owner.count(m)) {             // contended: disabled until released
    me->blockedOn = m;
    vt::schedule("blocked", m);
  }
  me->blockedOn = NULL;
  vt::owner[m] = vt::self;
  return 0;
}

extern "C" int pthread_mutex_trylock(pthread_mutex_t *m) {
  vt::resolve();
  if (!vt::active || vt::self < 0) return vt::realTrylock(m);
  vt::schedule("trylock", m);
  if (vt::owner.count(m)) return 16 /*EBUSY*/;
  vt::owner[m] = vt::self;
  return 0;
}

extern "C" int pthread_mutex_unlock(pthread_mutex_t *m) {
  vt::resolve();
  if (!vt::active || vt::self < 0) return vt::realUnlock(m);
  std::map<void *, int>::iterator it = vt::owner.find(m);
  if (it == vt::owner.end() || it->second != vt::self) vt::misuse++;   // glibc (normal mutex) releases it regardless
  if (it != vt::owner.end()) vt::owner.erase(it);
  vt::schedule("unlock", m);               // scheduling point after the release
  return 0;
}
