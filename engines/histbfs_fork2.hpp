// E1 histbfs, crash-contained driver (a1; engines/histbfs_fork.hpp of checks C01/C02 is a different file with the same idea).  Same System concept and same line protocol as histbfs.hpp
// (vlib/histbfs.py is used unchanged), but in `expand` mode the items are expanded by a
// forked worker of the driver (one worker for the whole file as long as nothing dies).  If the worker dies (sanitizer abort, signal, per-transition alarm),
// the driver itself reports the transition that was running as a violating transition
//     V <op> crash:<class>:<kind of the operation>\t<first line of the report>
// and forks a new worker for the remaining operations and items.  A crash therefore costs one
// fork() instead of a new process start (dynamic linking of the ASan build of libocca takes > 1 s),
// which keeps an exploration with thousands of crashing transitions inside its budget, and the crash
// is attributed to the exact history by the process that ran it.
//
// Extras:
//   hbf2::event(name)        record that a situation was reached (vacuity guards), see below
//   hbf2::childExitHook()    optional callback run in a child before it exits normally (e.g. dump counters)
// A transition that runs longer than perTransitionSeconds (or is killed by a SIGALRM watchdog of the System) is
// reported as crash:timeout:<kind>.
#pragma once
#include <cerrno>
#include <csignal>
#include <fcntl.h>
#include <sys/mman.h>
#include <sys/wait.h>
#include <unistd.h>
#include "histbfs.hpp"

namespace hbf2 {
  // ---- situation events (vacuity guards): hbf2::event("name") appends the name, once per driver process, to
  // the file events.<driver pid> in the working directory; the check unions the lines of events.* .
  // The de-duplication table lives in shared memory so that forked children do not repeat each other.
  struct EventTable { volatile unsigned long slot[4096]; volatile long driverPid; };
  inline EventTable *&eventTablePtr() { static EventTable *t = NULL; return t; }
  inline EventTable *eventTable() {
    EventTable *&t = eventTablePtr();
    if (!t) {
      void *m = mmap(NULL, sizeof(EventTable), PROT_READ | PROT_WRITE, MAP_SHARED | MAP_ANONYMOUS, -1, 0);
      if (m == MAP_FAILED) return NULL;
      t = (EventTable *) m;          // zero-filled by the kernel
      t->driverPid = (long) getpid();
    }
    return t;
  }
  inline void event(const std::string &name) {
    EventTable *t = eventTable();
    unsigned long hsh = 1469598103934665603UL;
    for (unsigned char ch : name) { hsh ^= ch; hsh *= 1099511628211UL; }
    if (hsh == 0) hsh = 1;
    if (t) {
      for (unsigned long i = hsh % 4096, n = 0; n < 4096; i = (i + 1) % 4096, ++n) {
        if (t->slot[i] == hsh) return;                 // already written by this driver or one of its children
        if (t->slot[i] == 0) { t->slot[i] = hsh; break; }
      }
    }
    char path[64];
    snprintf(path, sizeof(path), "events.%ld", t ? (long) t->driverPid : (long) getpid());
    int fd = open(path, O_WRONLY | O_CREAT | O_APPEND, 0644);
    if (fd >= 0) {
      std::string ln = hb::oneLine(name) + "\n";
      (void) !write(fd, ln.data(), ln.size());
      close(fd);
    }
  }

  typedef void (*exitHook_t)();
  inline exitHook_t &childExitHook() { static exitHook_t h = NULL; return h; }

  inline std::string slurp(const std::string &path, size_t maxBytes = 8000) {
    std::string s;
    FILE *f = fopen(path.c_str(), "rb");
    if (!f) return s;
    char buf[1024];
    size_t n;
    while (s.size() < maxBytes && (n = fread(buf, 1, sizeof(buf), f)) > 0) s.append(buf, n);
    fclose(f);
    return s;
  }

  // same classes as vlib/histbfs.py::_crash_class
  inline std::string crashClass(const std::string &how, const std::string &err) {
    if (err.find("AddressSanitizer") != std::string::npos) {
      static const char *kw[] = {"heap-use-after-free", "heap-buffer-overflow", "attempting double-free", "stack-buffer-overflow",
                                 "SEGV", "stack-overflow", "global-buffer-overflow", "alloc-dealloc-mismatch", "negative-size-param",
                                 "stack-use-after-scope", "bad-free", "memcpy-param-overlap", "allocation-size-too-big", "FPE"};
      for (const char *k : kw)
        if (err.find(k) != std::string::npos) {
          std::string s = std::string("asan-") + k;
          for (auto &ch : s) if (ch == ' ') ch = '-';
          return s;
        }
      return "asan";
    }
    return how;
  }

  inline std::string firstReport(const std::string &err) {
    size_t i = 0;
    std::string last;
    while (i < err.size()) {
      size_t j = err.find('\n', i);
      if (j == std::string::npos) j = err.size();
      std::string ln = err.substr(i, j - i);
      if (ln.find("ERROR: AddressSanitizer") != std::string::npos || ln.find("runtime error") != std::string::npos ||
          ln.find("terminate called") != std::string::npos || ln.find("what():") != std::string::npos)
        return hb::oneLine(ln).substr(0, 300);
      if (!ln.empty()) last = ln;
      i = j + 1;
    }
    return hb::oneLine(last).substr(0, 300);
  }

  struct Progress {        // shared between driver and worker
    volatile long item;          // index of the item the worker is expanding
    volatile long opIndex;       // index (in enabled()) of the transition that is running, -1 = prefix/enumeration
    volatile int k, a, b, c;     // that operation
    volatile long nEnabled;      // number of enabled operations of the item (-1 = not known yet)
    volatile long done;          // number of items completely expanded (END printed)
  };

  struct Item { std::vector<hb::Op> h; int skip; };

  // worker: expands items[from..] ; for items[from] it starts at operation `skip` and prints the S/N lines only
  // if `fresh` (otherwise an earlier worker already printed them before it died)
  template <class Sys>
  void work(const std::vector<Item> &items, size_t from, int skip, bool fresh, Progress *pr, int perTransitionSeconds) {
    for (size_t n = from; n < items.size(); ++n) {
      const std::vector<hb::Op> &h = items[n].h;
      pr->item = (long) n; pr->opIndex = -1; pr->nEnabled = -1;
      if (fresh) printf("BEGIN %zu\n", n);
      alarm(perTransitionSeconds);
      hb::Ctx ctx0;
      std::vector<hb::Op> en;
      std::string key0 = hb::runHistory<Sys>(h, NULL, ctx0, &en);
      if (fresh) {
        printf("S %s\n", key0.c_str());
        printf("N %zu\n", en.size());
      }
      pr->nEnabled = (long) en.size();
      for (size_t i = skip; i < en.size(); ++i) {
        pr->k = en[i].k; pr->a = en[i].a; pr->b = en[i].b; pr->c = en[i].c;
        pr->opIndex = (long) i;
        printf("P %zu %s\n", i, hb::opStr(en[i]).c_str());
        alarm(perTransitionSeconds);
        hb::Ctx ctx;
        std::string key = hb::runHistory<Sys>(h, &en[i], ctx, NULL);
        if (ctx.fails.empty()) {
          printf("T %s %s\n", hb::opStr(en[i]).c_str(), key.c_str());
        } else {
          for (auto &f : ctx.fails)
            printf("V %s %s\t%s\n", hb::opStr(en[i]).c_str(), f.first.c_str(), f.second.c_str());
        }
      }
      alarm(0);
      printf("END %zu\n", n);
      pr->done = (long) n + 1;
      fresh = true;
      skip = (n + 1 < items.size()) ? items[n + 1].skip : 0;
    }
  }

  template <class Sys>
  int main(int argc, char **argv, int perTransitionSeconds = 60) {
    if (argc < 3 || std::string(argv[1]) != "expand") return hb::main<Sys>(argc, argv);
    setvbuf(stdout, NULL, _IOLBF, 0);
    eventTable();      // before the first fork: shared with all workers
    Progress *pr = (Progress *) mmap(NULL, sizeof(Progress), PROT_READ | PROT_WRITE, MAP_SHARED | MAP_ANONYMOUS, -1, 0);
    if (pr == MAP_FAILED) { perror("mmap"); return 2; }
    const std::string errPath = std::string(argv[2]) + ".worker-err";
    std::vector<Item> items;
    {
      std::ifstream in(argv[2]);
      std::string line;
      while (std::getline(in, line)) {
        Item it; it.skip = 0;
        size_t bar = line.find('|');
        if (bar != std::string::npos) {
          sscanf(line.c_str() + bar, "|skip=%d", &it.skip);
          line = line.substr(0, bar);
        }
        it.h = hb::parseHistory(line);
        items.push_back(it);
      }
    }
    size_t from = 0;
    int skip = items.empty() ? 0 : items[0].skip;
    bool fresh = true;
    pr->done = 0;
    long deaths = 0;
    while (from < items.size()) {
      pr->item = (long) from; pr->opIndex = -1; pr->nEnabled = -1;
      fflush(stdout);
      pid_t pid = fork();
      if (pid < 0) { perror("fork"); return 2; }
      if (pid == 0) {
        int fd = open(errPath.c_str(), O_WRONLY | O_CREAT | O_TRUNC, 0644);
        if (fd >= 0) { dup2(fd, 2); close(fd); }
        work<Sys>(items, from, skip, fresh, pr, perTransitionSeconds);
        fflush(stdout);
        if (childExitHook()) childExitHook()();
        _exit(0);
      }
      int st = 0;
      while (waitpid(pid, &st, 0) < 0 && errno == EINTR) {}
      if (WIFEXITED(st) && WEXITSTATUS(st) == 0) break;
      // the worker died while it was expanding item pr->item
      const std::string how = WIFSIGNALED(st) ? (WTERMSIG(st) == SIGALRM ? std::string("timeout") : "signal" + std::to_string(WTERMSIG(st)))
                                              : "exit" + std::to_string(WEXITSTATUS(st));
      const std::string err = slurp(errPath);
      if (pr->opIndex < 0 || ++deaths > 1000000) {
        // died while replaying the prefix or enumerating operations: the Python side attributes it (no P line = prefix)
        fprintf(stderr, "%s", err.c_str());
        fflush(stdout);
        if (WIFSIGNALED(st)) { signal(WTERMSIG(st), SIG_DFL); raise(WTERMSIG(st)); }
        _exit(WIFEXITED(st) ? WEXITSTATUS(st) : 70);
      }
      hb::Op op(pr->k, pr->a, pr->b, pr->c);
      printf("V %s crash:%s:%s\t%s :: %s\n", hb::opStr(op).c_str(), crashClass(how, err).c_str(), Sys::kindName(op).c_str(),
             how.c_str(), firstReport(err).c_str());
      from = (size_t) pr->item;
      skip = (int) pr->opIndex + 1;
      fresh = false;
      if (pr->nEnabled >= 0 && skip >= pr->nEnabled) {     // it was the last operation of the item
        printf("END %zu\n", from);
        ++from;
        skip = from < items.size() ? items[from].skip : 0;
        fresh = true;
      }
    }
    unlink(errPath.c_str());
    return 0;
  }
}
