// gpuemu - host side: feeds the launch dims computed by a *translated launcher* to an emulated
// device kernel, using the REAL OCCA runtime classes for everything the launcher touches
// (occa::dim with its unsigned extents, occa::kernel::setRunDims / operator() / run() including the
// "zero extent => no-op" rule, occa::kernelArg conversion).  Only the backend kernel object is a
// stand-in: gpuemu::emuKernel plays the role of occa::cuda::kernel / occa::opencl::kernel ... and,
// like cuda::kernel::deviceRun, passes one pointer per argument plus outerDims/innerDims on.
//
// Usage (launcher TU, compiled against libocca; keep device code in another TU):
//     extern "C" void k(occa::modeKernel_t **deviceKernels, const int &N, ...);   // translated launcher
//     extern "C" void k_entry0(void **args, const size_t outer[3], const size_t inner[3]); // device TU
//     gpuemu::Host host;                                   // owns a Serial occa::device
//     occa::modeKernel_t *dk[] = { host.kernel("k_0", k_entry0) };
//     k(dk, N, ...);                                       // what launchedModeKernel_t::launcherRun does
//
// Part of the trusted base; self-tested in selftest/.
#ifndef VERIF_GPUEMU_OCCA_LAUNCH_HPP
#define VERIF_GPUEMU_OCCA_LAUNCH_HPP

#include <vector>
#include <string>

#include <occa/core/device.hpp>
#include <occa/core/kernel.hpp>
#include <occa/internal/core/device.hpp>
#include <occa/internal/core/kernel.hpp>

#include "gpuemu.hpp"

namespace gpuemu {

  class emuKernel : public occa::modeKernel_t {
  public:
    Entry entry;
    mutable size_t runs;            // number of times run() was reached (i.e. launch was not a no-op)
    mutable size_t lastOuter[3], lastInner[3];

    emuKernel(occa::modeDevice_t *modeDevice_, const std::string &name_, Entry entry_) :
      occa::modeKernel_t(modeDevice_, name_, "", occa::json()),
      entry(entry_),
      runs(0) {
      for (int d = 0; d < 3; ++d) lastOuter[d] = lastInner[d] = 0;
    }

    ~emuKernel() {}

    int maxDims() const { return 3; }
    occa::dim maxOuterDims() const { return occa::dim(occa::udim_t(-1), occa::udim_t(-1), occa::udim_t(-1)); }
    occa::dim maxInnerDims() const { return occa::dim(occa::udim_t(-1), occa::udim_t(-1), occa::udim_t(-1)); }
    const occa::lang::kernelMetadata_t& getMetadata() const { return metadata; }

    // same shape as occa::cuda::kernel::deviceRun
    void run() const {
      // vArgs[i] points at the value of argument i (CUDA driver convention).  Memory arguments come
      // from the Host's Serial device, whose kernelArg "pointer" is the host address of the data itself
      // (a CUDA memory would hand out the address of its CUdeviceptr), so it is stored and pointed at.
      std::vector<void*> vArgs(arguments.size() + 1, (void*) 0);
      std::vector<void*> pointerValues(arguments.size() + 1, (void*) 0);
      for (size_t i = 0; i < arguments.size(); ++i) {
        const occa::kernelArgData &arg = arguments[i];
        if (arg.value.type == occa::primitiveType::ptr) {
          pointerValues[i] = arg.value.value.ptr;
          vArgs[i] = &pointerValues[i];
        } else {
          vArgs[i] = arg.ptr();
        }
      }
      const size_t outer[3] = {(size_t) outerDims.x, (size_t) outerDims.y, (size_t) outerDims.z};
      const size_t inner[3] = {(size_t) innerDims.x, (size_t) innerDims.y, (size_t) innerDims.z};
      ++runs;
      for (int d = 0; d < 3; ++d) { lastOuter[d] = outer[d]; lastInner[d] = inner[d]; }
      entry(&vArgs[0], outer, inner);
    }
  };

  class Host {
  public:
    occa::device device;
    std::vector<emuKernel*> kernels;

    Host() : device(std::string("{mode: 'Serial'}")) {}

    ~Host() {
      for (size_t i = 0; i < kernels.size(); ++i) {
        delete kernels[i];
      }
      kernels.clear();
    }

    // The returned object stays owned by the Host; occa::kernel wrappers created by the launcher do
    // not free it (dontUseRefs, as launchedModeDevice_t does for its device kernels).
    emuKernel* kernel(const std::string &name, Entry entry) {
      emuKernel *k = new emuKernel(device.getModeDevice(), name, entry);
      k->dontUseRefs();
      kernels.push_back(k);
      return k;
    }
  };
}

#endif
