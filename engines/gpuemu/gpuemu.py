#!/usr/bin/env python3
"""gpuemu (E6) build helpers + self-test.

    python3 engines/gpuemu/gpuemu.py [variant]       runs the self-test (prints GPUEMU-SELFTEST PASS)

Library use (from a check):
    import gpuemu                      (after sys.path.insert(0, <verif>/engines/gpuemu))
    gpuemu.device_cmd(mode, src, obj)  g++ command that compiles *device* source of a GPU mode to an object
    gpuemu.host_cmd(variant, src, obj) g++ command that compiles a launcher/host TU (needs libocca headers)
    gpuemu.link_cmd(variant, objs, exe)
    gpuemu.selftest(variant, workdir)  -> (ok, text)

Device TUs contain only the stub header + translated device source + Entry trampolines; they do not see
any OCCA header.  Host TUs are compiled against the libocca variant ($VERIF_BUILD/<variant>) and must be
linked with the same sanitizer flags as that variant (base_flags/link_cmd take care of that).
Variants: "asan" (ASan+UBSan libocca and harness; needed when device code touches memory) and "rel"
(uninstrumented libocca, UBSan-only harness; ~50x faster translation, for checks that only observe values).
"""
import os, subprocess, sys

HERE = os.path.dirname(os.path.abspath(__file__))
ROOT = os.path.dirname(os.path.dirname(HERE))
REPO = os.environ.get("VERIF_REPO", "/repo")
BUILD = os.environ.get("VERIF_BUILD", os.path.join(ROOT, "build"))

# default instrumentation of harness objects per libocca variant.  With "rel" (uninstrumented libocca: the
# OKL parser is ~50x faster than under ASan) harness code gets UBSan only; with "asan" everything is
# ASan+UBSan.  Never mix ASan-instrumented harness objects with the uninstrumented library (container
# annotations would raise false container-overflow reports).
SAN = {
    "asan": ["-fsanitize=address,undefined", "-fno-omit-frame-pointer"],
    "rel": ["-fsanitize=undefined"],
}

# translated source of these modes can be run under the emulator
GPU_MODES = ("cuda", "hip", "opencl", "metal", "dpcpp")

FORCE_INCLUDE = {
    "cuda": ["-include", os.path.join(HERE, "gpuemu", "cuda.h")],
    "hip": [],                       # translated source has #include <hip/hip_runtime.h>
    "opencl": ["-include", os.path.join(HERE, "gpuemu", "opencl_c.h")],
    "metal": [],                     # #include <metal_stdlib>
    "dpcpp": [],                     # #include <CL/sycl.hpp>
}


# cheapest optimisation level to *compile* (measured): ASan-instrumented code compiles faster at -O1
OPT = {"asan": "-O1", "rel": "-O0"}


def base_flags(variant, opt=None):
    return ["g++", "-std=c++17", opt or OPT[variant], "-g1", "-w"] + SAN[variant]


WORKGROUP_FLAGS = ["-DGPUEMU_WORKGROUP"]


RACE_FLAGS = ["-DGPUEMU_WORKGROUP", "-DGPUEMU_RACE", "-fsanitize=thread"]


def race_device_cmd(mode, src, obj, extra=()):
    """Device TU for the race pass: -O0 -fsanitize=thread (every access of the translated kernel instrumented, no other
    sanitizer); link the executable with race_runtime_cmd()'s object and WITHOUT -fsanitize=thread."""
    return (["g++", "-std=c++17", "-O0", "-g1", "-w"] + RACE_FLAGS + ["-I" + HERE, "-I" + os.path.join(HERE, "include")]
            + FORCE_INCLUDE[mode] + list(extra) + ["-x", "c++", "-c", src, "-o", obj])


def race_runtime_cmd(obj):
    return ["g++", "-std=c++17", "-O1", "-g1", "-w", "-I" + HERE, "-c", os.path.join(HERE, "race_runtime.cpp"), "-o", obj]


def device_cmd(mode, src, obj, variant="asan", extra=(), workgroup=False):
    """-x c++ because OpenCL/Metal sources may carry any extension.
    workgroup=True: work-group semantics (gpuemu/workgroup.hpp): the items of a group run as fibers,
    barriers synchronise, __shared__/__local/threadgroup/SYCL group-local memory exist, atomics exist."""
    return (base_flags(variant) + ["-I" + HERE, "-I" + os.path.join(HERE, "include")]
            + FORCE_INCLUDE[mode] + (WORKGROUP_FLAGS if workgroup else []) + list(extra)
            + ["-x", "c++", "-c", src, "-o", obj])


def host_flags(variant, extra=()):
    bdir = os.path.join(BUILD, variant)
    return (base_flags(variant) + ["-DLIBOCCA_OCCA_VERIF", "-fno-access-control",
            "-I" + os.path.join(REPO, "include"), "-I" + os.path.join(bdir, "include"),
            "-I" + os.path.join(REPO, "src"), "-I" + os.path.join(ROOT, "engines"), "-I" + HERE] + list(extra))


def host_cmd(variant, src, obj, extra=()):
    return host_flags(variant, extra) + ["-c", src, "-o", obj]


def host_pch(variant, workdir, extra=(), also_include=()):
    """Precompile occa_launch.hpp (+ further headers) once: parsing the OCCA headers dominates the compile time
    of a launcher TU.  Returns the flags to add to host_cmd(..., extra=...) so that the PCH is used (all other
    flags must be identical to the ones given here)."""
    os.makedirs(workdir, exist_ok=True)
    hdr = os.path.join(workdir, "gpuemu_host_pch.hpp")
    with open(hdr, "w") as f:
        f.write('#include "occa_launch.hpp"\n' + "".join('#include "%s"\n' % h for h in also_include))
    p = _run(host_flags(variant, extra) + ["-x", "c++-header", hdr, "-o", hdr + ".gch"])
    if p.returncode != 0:
        raise RuntimeError("gpuemu: precompiling the host header failed:\n" + p.stdout[-3000:])
    return ["-include", hdr]


def link_cmd(variant, objs, exe, with_occa=True):
    bdir = os.path.join(BUILD, variant)
    cmd = base_flags(variant) + list(objs)
    if with_occa:
        cmd += ["-L" + os.path.join(bdir, "lib"), "-locca", "-Wl,-rpath," + os.path.join(bdir, "lib")]
    return cmd + ["-lpthread", "-ldl", "-o", exe]


def _run(cmd, **kw):
    return subprocess.run(cmd, stdout=subprocess.PIPE, stderr=subprocess.STDOUT, text=True, **kw)


def selftest(variant, workdir, env=None):
    """Compile and run the hand-written kernels of selftest/.  Returns (ok, output)."""
    os.makedirs(workdir, exist_ok=True)
    st = os.path.join(HERE, "selftest")
    objs = []
    log = []
    jobs = [("cuda", "st_cuda.cpp"), ("hip", "st_hip.cpp"), ("opencl", "st_opencl.cpp"),
            ("metal", "st_metal.cpp"), ("dpcpp", "st_sycl.cpp")]
    procs = []
    for mode, f in jobs:
        obj = os.path.join(workdir, f + ".o")
        objs.append(obj)
        procs.append((f, subprocess.Popen(device_cmd(mode, os.path.join(st, f), obj, variant, extra=["-I" + st]),
                                          stdout=subprocess.PIPE, stderr=subprocess.STDOUT, text=True)))
    hobj = os.path.join(workdir, "st_host.o")
    procs.append(("st_host.cpp", subprocess.Popen(host_cmd(variant, os.path.join(st, "st_host.cpp"), hobj),
                                                  stdout=subprocess.PIPE, stderr=subprocess.STDOUT, text=True)))
    for f, p in procs:
        out, _ = p.communicate()
        if p.returncode != 0:
            return False, "compile of %s failed:\n%s" % (f, out[-4000:])
    exe = os.path.join(workdir, "gpuemu_selftest")
    p = _run(link_cmd(variant, objs + [hobj], exe))
    if p.returncode != 0:
        return False, "link failed:\n" + p.stdout[-4000:]
    e = dict(env if env is not None else os.environ)
    e.setdefault("OCCA_CACHE_DIR", os.path.join(workdir, "occa-cache"))
    p = _run([exe], env=e, cwd=workdir)
    ok = (p.returncode == 0) and ("GPUEMU-SELFTEST PASS" in p.stdout)
    return ok, p.stdout[-4000:]


def selftest_workgroup(variant, workdir, env=None):
    """Work-group extension (fibers, barrier, group-shared memory, atomics): hand-written kernels of
    selftest/st_wg_*.cpp with known results.  With variant "asan" additionally three death tests: an
    access one element past a __shared__ / __local / SYCL group-local array must be reported by ASan.
    Needs no libocca.  Returns (ok, output)."""
    os.makedirs(workdir, exist_ok=True)
    st = os.path.join(HERE, "selftest")
    jobs = [("cuda", "st_wg_cuda.cpp"), ("hip", "st_wg_hip.cpp"), ("opencl", "st_wg_opencl.cpp"),
            ("metal", "st_wg_metal.cpp"), ("dpcpp", "st_wg_sycl.cpp")]
    objs, procs = [], []
    for mode, f in jobs:
        obj = os.path.join(workdir, f + ".o")
        objs.append(obj)
        procs.append((f, subprocess.Popen(device_cmd(mode, os.path.join(st, f), obj, variant, extra=["-I" + st], workgroup=True),
                                          stdout=subprocess.PIPE, stderr=subprocess.STDOUT, text=True)))
    hobj = os.path.join(workdir, "st_wg_host.o")
    procs.append(("st_wg_host.cpp", subprocess.Popen(
        base_flags(variant) + ["-I" + HERE, "-c", os.path.join(st, "st_wg_host.cpp"), "-o", hobj],
        stdout=subprocess.PIPE, stderr=subprocess.STDOUT, text=True)))
    for f, p in procs:
        out, _ = p.communicate()
        if p.returncode != 0:
            return False, "compile of %s failed:\n%s" % (f, out[-4000:])
    exe = os.path.join(workdir, "gpuemu_wg_selftest")
    p = _run(link_cmd(variant, objs + [hobj], exe, with_occa=False))
    if p.returncode != 0:
        return False, "link failed:\n" + p.stdout[-4000:]
    e = dict(env if env is not None else os.environ)
    e.pop("GPUEMU_ITEM_ORDER", None)
    p = _run([exe], env=e, cwd=workdir)
    text = p.stdout[-4000:]
    ok = (p.returncode == 0) and ("GPUEMU-WG-SELFTEST PASS" in p.stdout)
    if ok:
        e2 = dict(e)
        e2["GPUEMU_ITEM_ORDER"] = "desc"       # the same known results with the items of a phase run in descending order
        q = _run([exe], env=e2, cwd=workdir)
        text += q.stdout[-2000:]
        ok = (q.returncode == 0) and ("GPUEMU-WG-SELFTEST PASS" in q.stdout)
    if ok and variant == "asan":
        for what in ("oob-cuda", "oob-opencl", "oob-sycl"):
            q = _run([exe, what], env=e, cwd=workdir)
            good = (q.returncode != 0 and "OOB-PRELUDE-OK" in q.stdout and "OOB-NOT-DETECTED" not in q.stdout
                    and "AddressSanitizer" in q.stdout and "buffer-overflow" in q.stdout)
            text += "%s: %s\n" % (what, "detected by ASan" if good else "NOT DETECTED\n" + q.stdout[-1500:])
            ok = ok and good
    return ok, text


def selftest_race(workdir, env=None):
    """Race pass (race_runtime.cpp): hand-written kernels with known verdicts in CUDA/OpenCL/Metal/SYCL spelling.
    Needs no libocca.  Returns (ok, output)."""
    os.makedirs(workdir, exist_ok=True)
    st = os.path.join(HERE, "selftest")
    jobs = [("cuda", "st_race_cuda.cpp"), ("opencl", "st_race_opencl.cpp"), ("metal", "st_race_metal.cpp"), ("dpcpp", "st_race_sycl.cpp")]
    objs, procs = [], []
    for mode, f in jobs:
        obj = os.path.join(workdir, f + ".o")
        objs.append(obj)
        procs.append((f, subprocess.Popen(race_device_cmd(mode, os.path.join(st, f), obj), stdout=subprocess.PIPE, stderr=subprocess.STDOUT, text=True)))
    robj = os.path.join(workdir, "race_runtime.o")
    procs.append(("race_runtime.cpp", subprocess.Popen(race_runtime_cmd(robj), stdout=subprocess.PIPE, stderr=subprocess.STDOUT, text=True)))
    hobj = os.path.join(workdir, "st_race_host.o")
    procs.append(("st_race_host.cpp", subprocess.Popen(
        ["g++", "-std=c++17", "-O1", "-g1", "-w", "-I" + HERE, "-c", os.path.join(st, "st_race_host.cpp"), "-o", hobj],
        stdout=subprocess.PIPE, stderr=subprocess.STDOUT, text=True)))
    for f, p in procs:
        out, _ = p.communicate()
        if p.returncode != 0:
            return False, "compile of %s failed:\n%s" % (f, out[-4000:])
    exe = os.path.join(workdir, "gpuemu_race_selftest")
    p = _run(["g++"] + objs + [robj, hobj, "-o", exe])
    if p.returncode != 0:
        return False, "link failed:\n" + p.stdout[-4000:]
    e = dict(env if env is not None else os.environ)
    p = _run([exe], env=e, cwd=workdir)
    return (p.returncode == 0 and "GPUEMU-RACE-SELFTEST PASS" in p.stdout), p.stdout[-4000:]


if __name__ == "__main__":
    variant = sys.argv[1] if len(sys.argv) > 1 else "asan"
    wd = os.path.join(BUILD, "scratch", "gpuemu-selftest")
    ok, out = selftest(variant, wd)
    print(out)
    ok2, out2 = selftest_workgroup(variant, os.path.join(wd, "wg"))
    print(out2)
    ok3, out3 = selftest_race(os.path.join(wd, "race"))
    print(out3)
    sys.exit(0 if (ok and ok2 and ok3) else 1)
