// gpuemu stub for SYCL (DPC++) as used by OCCA's dpcpp translation:
//   extern "C" void kernel(sycl::queue *queue_, sycl::nd_range<3> *range_, args...) {
//     queue_->submit([&](sycl::handler &h) { h.parallel_for(*range_, [=](sycl::nd_item<3> item_) {...}); });
//   }
// OCCA builds the nd_range as global = {outer.z*inner.z, outer.y*inner.y, outer.x*inner.x},
// local = {inner.z, inner.y, inner.x} (SYCL dimension 2 is the fastest = x of ../../gpuemu.hpp).
// submit() runs the command group immediately; parallel_for executes the launch model.
#ifndef VERIF_GPUEMU_CL_SYCL_HPP
#define VERIF_GPUEMU_CL_SYCL_HPP

#include "../../gpuemu.hpp"
#ifdef GPUEMU_WORKGROUP
#include "../../gpuemu/workgroup.hpp"
#endif

namespace sycl {
  template <int D>
  class range {
    size_t v[D];
  public:
    range(size_t a, size_t b, size_t c) { static_assert(D == 3, "gpuemu: only range<3>"); v[0] = a; v[1] = b; v[2] = c; }
    size_t get(int d) const { return v[d]; }
    size_t operator [] (int d) const { return v[d]; }
    size_t size() const { return v[0] * v[1] * v[2]; }
  };

  template <int D>
  class nd_range {
    range<D> global_, local_;
  public:
    nd_range(range<D> g, range<D> l) : global_(g), local_(l) {}
    range<D> get_global_range() const { return global_; }
    range<D> get_local_range() const { return local_; }
  };

  namespace access {
    enum class fence_space { local_space, global_space, global_and_local };
    enum class address_space { global_space, local_space, constant_space, private_space, generic_space };
  }

  template <int D>
  class group {
    static int xyz(int d) { return (D - 1) - d; }
  public:
    size_t get_group_id(int d) const    { return gpuemu::cur().group[xyz(d)]; }
    size_t get_local_range(int d) const { return gpuemu::cur().lsize[xyz(d)]; }
    size_t get_group_range(int d) const { return gpuemu::cur().ngroups[xyz(d)]; }
  };

  template <int D>
  class nd_item {
    static int xyz(int d) { return (D - 1) - d; }
  public:
    size_t get_group(int d) const       { return gpuemu::cur().group[xyz(d)]; }
    size_t get_local_id(int d) const    { return gpuemu::cur().local[xyz(d)]; }
    size_t get_local_range(int d) const { return gpuemu::cur().lsize[xyz(d)]; }
    size_t get_group_range(int d) const { return gpuemu::cur().ngroups[xyz(d)]; }
    size_t get_global_id(int d) const   { return get_group(d) * get_local_range(d) + get_local_id(d); }
    size_t get_global_range(int d) const { return get_group_range(d) * get_local_range(d); }
    void barrier(access::fence_space = access::fence_space::global_and_local) const { gpuemu::barrier(); }
    group<D> get_group() const { return group<D>(); }
  };

#ifdef GPUEMU_WORKGROUP
  // work-group local memory (sycl_ext_oneapi_local_memory): every work-item of a group gets a pointer to
  // the same object, one object per group and per call (k-th call of each item, see workgroup.hpp);
  // "for_overwrite": the object is not initialised.
  template <class T, access::address_space S = access::address_space::local_space>
  class multi_ptr {
    T *p;
  public:
    explicit multi_ptr(T *p_) : p(p_) {}
    T& operator * () const { return *p; }
    T* operator -> () const { return p; }
    T* get() const { return p; }
  };

  namespace ext { namespace oneapi {
    template <class T, class Group>
    multi_ptr<T, access::address_space::local_space> group_local_memory_for_overwrite(Group) {
      return multi_ptr<T, access::address_space::local_space>((T*) gpuemu::groupLocalAlloc(sizeof(T)));
    }
  } }

  // sycl::atomic_ref (SYCL 2020, 4.15.3) for arithmetic types: the operators OCCA's @atomic lowering can
  // produce (real atomic operations, so that the race pass sees them as atomic accesses).
  enum class memory_order { relaxed, acquire, release, acq_rel, seq_cst };
  enum class memory_scope { work_item, sub_group, work_group, device, system };

  template <class T, memory_order O, memory_scope Sc,
            access::address_space A = access::address_space::generic_space>
  class atomic_ref {
    T &r;
  public:
    explicit atomic_ref(T &r_) : r(r_) {}
    T load() const { T v; __atomic_load(&r, &v, __ATOMIC_RELAXED); return v; }
    void store(T v) const { __atomic_store(&r, &v, __ATOMIC_RELAXED); }
    T operator = (T v) const { store(v); return v; }
    operator T () const { return load(); }
    T fetch_add(T v) const { return gpuemu::atomicRmw(&r, [=](T o) { return (T) (o + v); }); }
    T fetch_sub(T v) const { return gpuemu::atomicRmw(&r, [=](T o) { return (T) (o - v); }); }
    T fetch_and(T v) const { return gpuemu::atomicRmw(&r, [=](T o) { return (T) (o & v); }); }
    T fetch_or(T v) const  { return gpuemu::atomicRmw(&r, [=](T o) { return (T) (o | v); }); }
    T fetch_xor(T v) const { return gpuemu::atomicRmw(&r, [=](T o) { return (T) (o ^ v); }); }
    T operator += (T v) const { return (T) (fetch_add(v) + v); }
    T operator -= (T v) const { return (T) (fetch_sub(v) - v); }
    T operator &= (T v) const { return (T) (fetch_and(v) & v); }
    T operator |= (T v) const { return (T) (fetch_or(v) | v); }
    T operator ^= (T v) const { return (T) (fetch_xor(v) ^ v); }
    T operator ++ () const { return (T) (fetch_add(1) + 1); }
    T operator ++ (int) const { return fetch_add(1); }
    T operator -- () const { return (T) (fetch_sub(1) - 1); }
    T operator -- (int) const { return fetch_sub(1); }
  };
#endif

  class handler {
  public:
    template <class K>
    void parallel_for(const nd_range<3> &r, const K &k) {
      size_t ngroups[3], lsize[3];
      for (int d = 0; d < 3; ++d) {
        const size_t g = r.get_global_range()[d], l = r.get_local_range()[d];
        if (!l || (g % l)) {
          throw gpuemu::launch_error("sycl: global range is not a multiple of the local range");
        }
        ngroups[2 - d] = g / l;
        lsize[2 - d]   = l;
      }
      gpuemu::runGrid(ngroups, lsize, [&]() { k(nd_item<3>()); });
    }
  };

  class queue {
  public:
    template <class F>
    void submit(const F &f) { handler h; f(h); }
    void wait() {}
  };
}

// Entry for a dpcpp kernel: builds queue + nd_range exactly like occa::dpcpp::kernel::deviceRun and
// calls the translated function once (callExpr uses `queue_` and `range_`).
#define SYCL_EXTERNAL

#define GPUEMU_SYCL_ENTRY(entryName, callExpr)                                        \
  extern "C" void entryName(void **args, const size_t outer[3], const size_t inner[3]) { \
    sycl::range<3> global_range_(outer[2] * inner[2], outer[1] * inner[1], outer[0] * inner[0]); \
    sycl::range<3> local_range_(inner[2], inner[1], inner[0]);                        \
    sycl::nd_range<3> ndrange_(global_range_, local_range_);                          \
    sycl::queue q_;                                                                   \
    sycl::queue *queue_ = &q_;                                                        \
    sycl::nd_range<3> *range_ = &ndrange_;                                            \
    callExpr;                                                                         \
  }

#endif
