// gpuemu stub: HIP device code uses the CUDA built-ins (blockIdx/threadIdx/blockDim/gridDim, __global__ ...)
#ifndef VERIF_GPUEMU_HIP_RUNTIME_H
#define VERIF_GPUEMU_HIP_RUNTIME_H
#include "../../gpuemu/cuda.h"
#endif
