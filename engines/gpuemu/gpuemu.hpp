// gpuemu - E6: the documented GPU launch model in plain, sequential C++ (TRUSTED BASE).
//
// What is modelled (and nothing more):
//   * a launch is a 3-D grid of `ngroups[x,y,z]` work-groups, each a 3-D block of `lsize[x,y,z]`
//     work-items;
//   * the device function is executed once for every (group, local) pair;
//   * while the function runs for one work-item, `gpuemu::cur()` holds that item's coordinates;
//     the per-language stub headers (gpuemu/cuda.h, gpuemu/opencl_c.h, include/metal_stdlib,
//     include/CL/sycl.hpp, include/hip/hip_runtime.h) expose them under the language's names
//     (blockIdx/threadIdx, get_group_id/get_local_id, uint3 parameters, nd_item<3>).
//   * a launch with a zero extent is an error at this level (as in the CUDA/OpenCL driver APIs); the
//     OCCA runtime filters such launches out before they get here (occa::kernel::run / isNoop).
//   * a launch with more than `limits().max_items` work-items is refused with launch_error
//     ("too large") instead of being executed; real devices have (different) hard limits too.  A
//     caller that sees this error must treat it as "launch size is not what a correct translation
//     computes for a small loop", never as a pass.
//
// Execution order: groups z-major/x-fastest, one after another; the items of a group are run by the
// *group executor*.  The default executor runs them one after another (x fastest), which is exact
// for kernels without barriers.  Barriers and per-group shared memory need every item of a group to
// be alive at the same time: a later extension replaces the executor (setGroupExecutor) with one
// that runs the items as ucontext fibers and implements `barrier()`; the launch-dims plumbing in
// this file and in occa_launch.hpp does not change for that.  Until then `barrier()` in a group of
// more than one item throws launch_error, so a kernel that needs it can not be judged by accident.
//
// Single-threaded by design (one global current item).  No randomness, no clock.
#ifndef VERIF_GPUEMU_HPP
#define VERIF_GPUEMU_HPP

#include <cstddef>
#include <cstdint>
#include <stdexcept>
#include <string>

namespace gpuemu {

  struct WorkItem {
    size_t group[3];    // work-group index in the grid   (x, y, z)
    size_t local[3];    // work-item index in its group    (x, y, z)
    size_t ngroups[3];  // grid extent in groups
    size_t lsize[3];    // group extent in items
    bool   active;      // true while a device function runs
  };

  inline WorkItem& cur() {
    static WorkItem w = {{0, 0, 0}, {0, 0, 0}, {0, 0, 0}, {0, 0, 0}, false};
    return w;
  }

  struct launch_error : public std::runtime_error {
    explicit launch_error(const std::string &what_) : std::runtime_error("gpuemu launch error: " + what_) {}
  };

  struct Limits {
    size_t max_items;   // refuse launches with more work-items than this
  };

  inline Limits& limits() {
    static Limits l = {size_t(1) << 20};
    return l;
  }

  struct Stats {
    size_t launches, groups, items;
  };

  inline Stats& stats() {
    static Stats s = {0, 0, 0};
    return s;
  }

  // One work-item's body: a plain function pointer + context (no std::function: translation units
  // with many kernels must stay cheap to compile).  runGrid() below also accepts any callable.
  struct ItemFn {
    void (*fn)(void *ctx);
    void *ctx;
    void operator () () const { fn(ctx); }
  };

  // Runs all items of the current group (cur().group/ngroups/lsize are set); must set cur().local
  // before each call of item().
  typedef void (*GroupExecutor)(const size_t lsize[3], const ItemFn &item);

  inline void sequentialGroupExecutor(const size_t lsize[3], const ItemFn &item) {
    WorkItem &w = cur();
    for (size_t lz = 0; lz < lsize[2]; ++lz) {
      for (size_t ly = 0; ly < lsize[1]; ++ly) {
        for (size_t lx = 0; lx < lsize[0]; ++lx) {
          w.local[0] = lx; w.local[1] = ly; w.local[2] = lz;
          ++stats().items;
          item();
        }
      }
    }
  }

  inline GroupExecutor& groupExecutor() {
    static GroupExecutor g = sequentialGroupExecutor;
    return g;
  }

  inline void setGroupExecutor(GroupExecutor g) {
    groupExecutor() = (g ? g : sequentialGroupExecutor);
  }

  // barrier hook: the default executor can only honour a barrier in a 1-item group
  typedef void (*BarrierFn)();

  inline void defaultBarrier() {
    const WorkItem &w = cur();
    if (w.lsize[0] * w.lsize[1] * w.lsize[2] > 1) {
      throw launch_error("barrier reached but the sequential group executor cannot synchronise"
                         " a group of more than one work-item (install a fiber executor)");
    }
  }

  inline BarrierFn& barrierFn() {
    static BarrierFn b = defaultBarrier;
    return b;
  }

  inline void barrier() {
    barrierFn()();
  }

  // multiply with overflow detection (extents come from possibly wrong translations)
  inline bool mulOverflows(size_t a, size_t b, size_t &out) {
    return __builtin_mul_overflow(a, b, &out);
  }

  // The launch.  `item` is called once per work-item with cur() describing it.
  inline void runGridFn(const size_t ngroups[3], const size_t lsize[3], const ItemFn &item) {
    size_t total = 1;
    for (int d = 0; d < 3; ++d) {
      if (!ngroups[d] || !lsize[d]) {
        throw launch_error("zero-sized launch extent");
      }
      if (mulOverflows(total, ngroups[d], total) || mulOverflows(total, lsize[d], total)) {
        throw launch_error("launch too large");
      }
    }
    if (total > limits().max_items) {
      throw launch_error("launch too large");
    }
    WorkItem &w = cur();
    if (w.active) {
      throw launch_error("nested launch");
    }
    for (int d = 0; d < 3; ++d) {
      w.ngroups[d] = ngroups[d];
      w.lsize[d]   = lsize[d];
    }
    ++stats().launches;
    struct Guard {
      WorkItem &w_;
      Guard(WorkItem &w__) : w_(w__) { w_.active = true; }
      ~Guard() { w_.active = false; }
    } guard(w);
    for (size_t gz = 0; gz < ngroups[2]; ++gz) {
      for (size_t gy = 0; gy < ngroups[1]; ++gy) {
        for (size_t gx = 0; gx < ngroups[0]; ++gx) {
          w.group[0] = gx; w.group[1] = gy; w.group[2] = gz;
          ++stats().groups;
          groupExecutor()(lsize, item);
        }
      }
    }
  }

  // convenience: any callable `void f()` (a lambda capturing the kernel arguments by reference)
  template <class F>
  inline void runGrid(const size_t ngroups[3], const size_t lsize[3], const F &f) {
    struct Call {
      static void call(void *ctx) { (*static_cast<const F*>(ctx))(); }
    };
    ItemFn item = {&Call::call, const_cast<void*>(static_cast<const void*>(&f))};
    runGridFn(ngroups, lsize, item);
  }

  // Uniform entry point of one emulated device kernel, produced by the harness generator next to
  // the translated device source:
  //   args  : one pointer per kernel argument, pointing at the argument's value (the CUDA driver
  //           convention, which is also what occa::kernelArgData::ptr() yields)
  //   outer : number of work-groups (x, y, z);  inner: work-group size (x, y, z)
  typedef void (*Entry)(void **args, const size_t outer[3], const size_t inner[3]);
}

#endif
