// hand-written SYCL work-group kernels in the shape OCCA's dpcpp mode emits (-DGPUEMU_WORKGROUP)
#include <CL/sycl.hpp>
using namespace sycl;
#define GX item_.get_group(2)
#define GY item_.get_group(1)
#define GZ item_.get_group(0)
#define LX item_.get_local_id(2)
#define LY item_.get_local_id(1)
#define LZ item_.get_local_id(0)
#define NGX item_.get_group_range(2)
#define NGY item_.get_group_range(1)
#define LSX item_.get_local_range(2)
#define LSY item_.get_local_range(1)
#define LSZ item_.get_local_range(0)
#define WG_SHARED_INT(name, count) auto & name = *(sycl::ext::oneapi::group_local_memory_for_overwrite<int[count]>(item_.get_group()))
#define WG_BARRIER() item_.barrier(sycl::access::fence_space::local_space)
extern "C" void st_wg_sycl(sycl::queue * queue_, sycl::nd_range<3> * range_,
                           int * out, int * out2, const int * in, const int & tag) {
  queue_->submit(
    [&](sycl::handler & handler_) {
      handler_.parallel_for(
        *range_,
        [=](sycl::nd_item<3> item_) {
#include "st_wg_body.inc"
        }
      );
    }
  );
}
extern "C" void st_wg_sycl_diverge(sycl::queue * queue_, sycl::nd_range<3> * range_, int * out) {
  queue_->submit(
    [&](sycl::handler & handler_) {
      handler_.parallel_for(
        *range_,
        [=](sycl::nd_item<3> item_) {
          if (item_.get_local_id(2) + 1 == item_.get_local_range(2)) return;
          item_.barrier(sycl::access::fence_space::local_space);
          out[item_.get_local_id(2)] = 1;
        }
      );
    }
  );
}
// group-local memory is one fresh, uninitialised object per group and call; two calls give two objects
extern "C" void st_wg_sycl_local(sycl::queue * queue_, sycl::nd_range<3> * range_, int * out, const int & bad) {
  queue_->submit(
    [&](sycl::handler & handler_) {
      handler_.parallel_for(
        *range_,
        [=](sycl::nd_item<3> item_) {
          auto & a = *(sycl::ext::oneapi::group_local_memory_for_overwrite<int[4]>(item_.get_group()));
          auto & b = *(sycl::ext::oneapi::group_local_memory_for_overwrite<int[4]>(item_.get_group()));
          const int l = (int) item_.get_local_id(2);
          const int g = (int) item_.get_group(2);
          const int before = a[l];            // not yet written in this group
          item_.barrier(sycl::access::fence_space::local_space);
          a[l + (bad ? 4 : 0)] = 10 + l;
          b[l] = 20 + l;
          item_.barrier(sycl::access::fence_space::local_space);
          out[3 * (4 * g + l) + 0] = before;
          out[3 * (4 * g + l) + 1] = a[3 - l];
          out[3 * (4 * g + l) + 2] = b[3 - l];
          sycl::atomic_ref<int,sycl::memory_order::relaxed,sycl::memory_scope::device,sycl::access::address_space::global_space>(out[96]) += 1;
          ++sycl::atomic_ref<int,sycl::memory_order::relaxed,sycl::memory_scope::device,sycl::access::address_space::global_space>(out[97]);
        }
      );
    }
  );
}
GPUEMU_SYCL_ENTRY(st_wg_sycl_entry, st_wg_sycl(queue_, range_, *(int**) args[0], *(int**) args[1], *(int**) args[2], *(int*) args[3]))
GPUEMU_SYCL_ENTRY(st_wg_sycl_diverge_entry, st_wg_sycl_diverge(queue_, range_, *(int**) args[0]))
GPUEMU_SYCL_ENTRY(st_wg_sycl_local_entry, st_wg_sycl_local(queue_, range_, *(int**) args[0], *(int*) args[1]))
