// race-pass self-test kernels, SYCL in the shape OCCA's dpcpp mode emits
#include <CL/sycl.hpp>
using namespace sycl;
extern "C" void st_race_sycl_plain(sycl::queue * queue_, sycl::nd_range<3> * range_, int * cnt) {
  queue_->submit([&](sycl::handler & handler_) {
    handler_.parallel_for(*range_, [=](sycl::nd_item<3> item_) { cnt[0] += 1; });
  });
}
extern "C" void st_race_sycl_atomic(sycl::queue * queue_, sycl::nd_range<3> * range_, int * cnt) {
  queue_->submit([&](sycl::handler & handler_) {
    handler_.parallel_for(*range_, [=](sycl::nd_item<3> item_) {
      sycl::atomic_ref<int,sycl::memory_order::relaxed,sycl::memory_scope::device,sycl::access::address_space::global_space>(cnt[0]) += 1;
      ++sycl::atomic_ref<int,sycl::memory_order::relaxed,sycl::memory_scope::device,sycl::access::address_space::global_space>(cnt[1]);
    });
  });
}
extern "C" void st_race_sycl_local_ok(sycl::queue * queue_, sycl::nd_range<3> * range_, int * out, const int * in) {
  queue_->submit([&](sycl::handler & handler_) {
    handler_.parallel_for(*range_, [=](sycl::nd_item<3> item_) {
      auto & s = *(sycl::ext::oneapi::group_local_memory_for_overwrite<int[4]>(item_.get_group()));
      const int l = item_.get_local_id(2), base = item_.get_group(2) * 4;
      s[l] = in[base + l];
      item_.barrier(sycl::access::fence_space::local_space);
      out[base + l] = s[3 - l];
    });
  });
}
GPUEMU_SYCL_ENTRY(st_race_sycl_plain_entry, st_race_sycl_plain(queue_, range_, *(int**) args[0]))
GPUEMU_SYCL_ENTRY(st_race_sycl_atomic_entry, st_race_sycl_atomic(queue_, range_, *(int**) args[0]))
GPUEMU_SYCL_ENTRY(st_race_sycl_local_ok_entry, st_race_sycl_local_ok(queue_, range_, *(int**) args[0], *(const int**) args[1]))
