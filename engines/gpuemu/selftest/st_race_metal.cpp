// race-pass self-test kernels, Metal spelling
#include <metal_compute>
#include <metal_stdlib>
using namespace metal;
kernel void st_race_mtl_plain(device int * cnt [[buffer(0)]], uint3 gp [[threadgroup_position_in_grid]], uint3 tp [[thread_position_in_threadgroup]]) {
  cnt[0] += 1;
}
kernel void st_race_mtl_tg_ok(device int * out [[buffer(0)]], device const int * in [[buffer(1)]],
                              uint3 gp [[threadgroup_position_in_grid]], uint3 tp [[thread_position_in_threadgroup]]) {
  threadgroup int s[4];
  const int l = tp.x, base = gp.x * 4;
  s[l] = in[base + l];
  threadgroup_barrier(mem_flags::mem_threadgroup);
  out[base + l] = s[3 - l];
}
GPUEMU_GRID_ENTRY(st_race_mtl_plain_entry, st_race_mtl_plain(*(int**) args[0], gpuemu::metalGroupPosition(), gpuemu::metalThreadPosition()))
GPUEMU_GRID_ENTRY(st_race_mtl_tg_ok_entry, st_race_mtl_tg_ok(*(int**) args[0], *(const int**) args[1], gpuemu::metalGroupPosition(), gpuemu::metalThreadPosition()))
