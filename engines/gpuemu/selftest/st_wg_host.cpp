// gpuemu work-group self-test (fiber executor, barrier, group-shared memory, 3-D ids): hand-written
// kernels in every language with results computed independently here.  Prints GPUEMU-WG-SELFTEST PASS.
//   no argument          all functional tests
//   oob-cuda | oob-opencl | oob-sycl     one deliberate out-of-bounds access to group-shared memory:
//                        under ASan the process must die with an AddressSanitizer report (checked by gpuemu.py)
#include <cstdio>
#include <cstring>
#include <string>
#include <vector>

#include "../gpuemu/workgroup.hpp"

#define ENTRY(name) extern "C" void name(void **args, const size_t outer[3], const size_t inner[3])
ENTRY(st_wg_cuda_entry);
ENTRY(st_wg_cuda_diverge_entry);
ENTRY(st_wg_cuda_oob_entry);
ENTRY(st_wg_cuda_atomic_entry);
ENTRY(st_wg_hip_entry);
ENTRY(st_wg_opencl_entry);
ENTRY(st_wg_opencl_diverge_entry);
ENTRY(st_wg_opencl_oob_entry);
ENTRY(st_wg_metal_entry);
ENTRY(st_wg_metal_diverge_entry);
ENTRY(st_wg_sycl_entry);
ENTRY(st_wg_sycl_diverge_entry);
ENTRY(st_wg_sycl_local_entry);

static int failures = 0;
#define CHECK(cond, ...) do { if (!(cond)) { ++failures; std::printf("FAIL %s:%d: ", __FILE__, __LINE__); std::printf(__VA_ARGS__); std::printf("\n"); } } while (0)

static void testKernel(const char *what, gpuemu::Entry entry) {
  const size_t dimsList[5][6] = {
    {1, 1, 1, 1, 1, 1},
    {2, 3, 1, 3, 1, 2},
    {1, 2, 2, 2, 3, 4},     // 24 items: the full shared array
    {3, 1, 1, 1, 4, 1},
    {2, 1, 2, 4, 2, 3},
  };
  for (int t = 0; t < 5; ++t) {
    const size_t *outer = dimsList[t], *inner = dimsList[t] + 3;
    const int n = (int) (inner[0] * inner[1] * inner[2]);
    const int groups = (int) (outer[0] * outer[1] * outer[2]);
    const int total = n * groups;
    // exact-size heap arrays
    int *in = new int[total], *out = new int[total], *out2 = new int[total];
    for (int k = 0; k < total; ++k) { in[k] = 3 * k + 1 + (k % 5); out[k] = -7; out2[k] = -7; }
    int tag = 40 + t;
    const int *inC = in;
    void *args[4] = {&out, &out2, &inC, &tag};
    const size_t relBefore = gpuemu::workgroupStats().barrierReleases;
    try {
      entry(args, outer, inner);
    } catch (std::exception &e) {
      CHECK(false, "%s dims %d: unexpected exception %s", what, t, e.what());
    }
    // 3 barriers + 2 per scan round, per group
    int rounds = 0;
    for (int stride = 1; stride < n; stride *= 2) ++rounds;
    CHECK(gpuemu::workgroupStats().barrierReleases - relBefore == (size_t) groups * (3 + 2 * rounds),
          "%s dims %d: %zu barrier releases", what, t, gpuemu::workgroupStats().barrierReleases - relBefore);
    int bad = 0;
    for (size_t gz = 0; gz < outer[2]; ++gz) for (size_t gy = 0; gy < outer[1]; ++gy) for (size_t gx = 0; gx < outer[0]; ++gx) {
      const int gid = (int) (gx + outer[0] * (gy + outer[1] * gz));
      for (int lid = 0; lid < n; ++lid) {
        const int src = (lid + 1) % n;                 // the item whose 3rd-phase value is read
        const int sx = src % (int) inner[0], sy = (src / (int) inner[0]) % (int) inner[1], sz = src / (int) (inner[0] * inner[1]);
        const int expect = 2 * (in[gid * n + (n - 1 - src)] + tag) + (sx + 10 * sy + 100 * sz)
                           + 1000 * (int) (gx + 10 * gy + 100 * gz);
        int prefix = 0;
        for (int k = 0; k <= lid; ++k) prefix += in[gid * n + k];
        if (out[gid * n + lid] != expect || out2[gid * n + lid] != prefix) {
          if (!bad) std::printf("FAIL %s dims %d group %d item %d: out %d expected %d, scan %d expected %d\n",
                                what, t, gid, lid, out[gid * n + lid], expect, out2[gid * n + lid], prefix);
          ++bad;
        }
      }
    }
    if (bad) ++failures;
    delete [] in; delete [] out; delete [] out2;
  }
}

static void testDiverge(const char *what, gpuemu::Entry entry) {
  int buf[4] = {0, 0, 0, 0};
  int *p = buf;
  void *args[1] = {&p};
  const size_t one[3] = {1, 1, 1}, three[3] = {3, 1, 1}, two[3] = {2, 1, 1};
  std::string msg;
  try { entry(args, two, three); } catch (gpuemu::launch_error &e) { msg = e.what(); }
  CHECK(msg.find("barrier divergence: 2 of 3") != std::string::npos, "%s: divergence not reported (%s)", what, msg.c_str());
  CHECK(!gpuemu::cur().active && !gpuemu::wg::group().active, "%s: state left active after divergence", what);
  // a 1-item group: the only item returns before the barrier, nobody waits
  msg.clear();
  try { entry(args, two, one); } catch (gpuemu::launch_error &e) { msg = e.what(); }
  CHECK(msg.empty(), "%s: 1-item group reported %s", what, msg.c_str());
}

static void testExceptionAndReuse() {
  const size_t outer[3] = {2, 1, 1}, inner[3] = {2, 2, 1};
  int calls = 0;
  bool threw = false;
  try {
    gpuemu::runGrid(outer, inner, [&]() {
      ++calls;
      if (calls == 3) throw std::runtime_error("item failure");
      gpuemu::barrier();
    });
  } catch (std::runtime_error &e) {
    threw = (std::string(e.what()) == "item failure");
  }
  CHECK(threw && calls == 3, "exception of an item must end the launch (calls=%d)", calls);
  CHECK(!gpuemu::cur().active && !gpuemu::wg::group().active, "state left active after exception");
  // the abandoned fibers' stacks are reused
  int sum = 0;
  gpuemu::runGrid(outer, inner, [&]() { int local[16]; for (int k = 0; k < 16; ++k) local[k] = k; gpuemu::barrier(); sum += local[15]; });
  CHECK(sum == 8 * 15, "launch after an abandoned one computed %d", sum);
  // order of execution between barriers: ascending linear item order in every phase
  std::vector<int> trace;
  const size_t g1[3] = {1, 1, 1}, l3[3] = {3, 1, 1};
  gpuemu::runGrid(g1, l3, [&]() {
    trace.push_back((int) gpuemu::cur().local[0]);
    gpuemu::barrier();
    trace.push_back(10 + (int) gpuemu::cur().local[0]);
  });
  const int expectAsc[6] = {0, 1, 2, 10, 11, 12}, expectDesc[6] = {2, 1, 0, 12, 11, 10};
  CHECK(trace.size() == 6 && !std::memcmp(&trace[0], gpuemu::wg::descendingOrder() ? expectDesc : expectAsc, sizeof(expectAsc)), "phase order");
}

static void testSyclLocal() {
  std::vector<int> out(98, -1);
  out[96] = 0; out[97] = 0;
  int *p = &out[0];
  int bad = 0;
  void *args[2] = {&p, &bad};
  const size_t outer[3] = {2, 1, 1}, inner[3] = {4, 1, 1};
  st_wg_sycl_local_entry(args, outer, inner);
  for (int g = 0; g < 2; ++g) for (int l = 0; l < 4; ++l) {
    const int *r = &out[3 * (4 * g + l)];
    CHECK(r[0] == (int) 0xA5A5A5A5, "sycl local memory of group %d is not fresh (item %d read %x)", g, l, r[0]);
    CHECK(r[1] == 10 + (3 - l) && r[2] == 20 + (3 - l), "sycl local exchange g=%d l=%d: %d %d", g, l, r[1], r[2]);
  }
  CHECK(out[96] == 8 && out[97] == 8, "sycl atomic_ref: %d %d", out[96], out[97]);
  CHECK(gpuemu::wg::group().locals.empty(), "group-local blocks not freed");
}

static void testCudaAtomic() {
  int cnt[2] = {0, 100};
  unsigned int ucnt[2] = {0, 50};
  int *a = cnt; unsigned int *b = ucnt;
  void *args[2] = {&a, &b};
  const size_t outer[3] = {2, 1, 1}, inner[3] = {3, 1, 1};
  st_wg_cuda_atomic_entry(args, outer, inner);
  CHECK(cnt[0] == 12 && cnt[1] == 88 && ucnt[0] == 6 && ucnt[1] == 44, "cuda atomics: %d %d %u %u", cnt[0], cnt[1], ucnt[0], ucnt[1]);
}

static int runOob(gpuemu::Entry entry, bool sycl) {
  const size_t outer[3] = {1, 1, 1}, inner[3] = {4, 1, 1};
  int *out = new int[98];
  std::memset(out, 0, 98 * sizeof(int));
  int bad = 0;
  void *args[2] = {&out, &bad};
  entry(args, outer, inner);            // in bounds: must pass
  std::printf("OOB-PRELUDE-OK\n");
  std::fflush(stdout);
  bad = 1;
  entry(args, outer, inner);            // one element past the group-shared array
  std::printf("OOB-NOT-DETECTED\n");
  (void) sycl;
  return 0;
}

int main(int argc, char **argv) {
  if (argc > 1) {
    const std::string what = argv[1];
    if (what == "oob-cuda") return runOob(st_wg_cuda_oob_entry, false);
    if (what == "oob-opencl") return runOob(st_wg_opencl_oob_entry, false);
    if (what == "oob-sycl") return runOob(st_wg_sycl_local_entry, true);
    return 2;
  }
  CHECK(gpuemu::groupExecutor() == gpuemu::fiberGroupExecutor, "fiber executor not installed");
  testKernel("cuda", st_wg_cuda_entry);
  testKernel("hip", st_wg_hip_entry);
  testKernel("opencl", st_wg_opencl_entry);
  testKernel("metal", st_wg_metal_entry);
  testKernel("sycl", st_wg_sycl_entry);
  testDiverge("cuda", st_wg_cuda_diverge_entry);
  testDiverge("opencl", st_wg_opencl_diverge_entry);
  testDiverge("metal", st_wg_metal_diverge_entry);
  testDiverge("sycl", st_wg_sycl_diverge_entry);
  testExceptionAndReuse();
  testSyclLocal();
  testCudaAtomic();
  if (failures) {
    std::printf("GPUEMU-WG-SELFTEST FAIL (%d)\n", failures);
    return 1;
  }
  std::printf("GPUEMU-WG-SELFTEST PASS groups=%zu barrier_waits=%zu releases=%zu local_blocks=%zu\n",
              gpuemu::workgroupStats().fiberGroups, gpuemu::workgroupStats().barrierWaits,
              gpuemu::workgroupStats().barrierReleases, gpuemu::workgroupStats().localAllocs);
  return 0;
}
