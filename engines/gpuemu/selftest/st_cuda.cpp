// hand-written CUDA kernel (compiled with -include gpuemu/cuda.h)
#define GX blockIdx.x
#define GY blockIdx.y
#define GZ blockIdx.z
#define LX threadIdx.x
#define LY threadIdx.y
#define LZ threadIdx.z
#define NGX gridDim.x
#define NGY gridDim.y
#define NGZ gridDim.z
#define LSX blockDim.x
#define LSY blockDim.y
#define LSZ blockDim.z
extern "C" __global__ __launch_bounds__(6) void st_cuda(int * out, int * counter, const int tag) {
#include "st_body.inc"
}
extern "C" __global__ void st_cuda_barrier(int * out) {
  out[threadIdx.x] = 1;
  __syncthreads();
}
GPUEMU_GRID_ENTRY(st_cuda_entry, st_cuda(*(int**) args[0], *(int**) args[1], *(int*) args[2]))
GPUEMU_GRID_ENTRY(st_cuda_barrier_entry, st_cuda_barrier(*(int**) args[0]))
