// race-pass self-test kernels, OpenCL C spelling
__kernel void st_race_cl_plain(__global int * cnt) { cnt[0] += 1; }
__kernel void st_race_cl_atomic(__global int * cnt) { atomic_add(&cnt[0], 1); atomic_inc(&cnt[1]); }
__kernel void st_race_cl_local_ok(__global int * out, __global const int * in) {
  __local int s[4];
  const int l = get_local_id(0), base = get_group_id(0) * get_local_size(0);
  s[l] = in[base + l];
  barrier(CLK_LOCAL_MEM_FENCE);
  out[base + l] = s[get_local_size(0) - 1 - l];
}
GPUEMU_GRID_ENTRY(st_race_cl_plain_entry, st_race_cl_plain(*(int**) args[0]))
GPUEMU_GRID_ENTRY(st_race_cl_atomic_entry, st_race_cl_atomic(*(int**) args[0]))
GPUEMU_GRID_ENTRY(st_race_cl_local_ok_entry, st_race_cl_local_ok(*(int**) args[0], *(const int**) args[1]))
