// hand-written CUDA work-group kernels (compiled with -include gpuemu/cuda.h -DGPUEMU_WORKGROUP)
#define GX blockIdx.x
#define GY blockIdx.y
#define GZ blockIdx.z
#define LX threadIdx.x
#define LY threadIdx.y
#define LZ threadIdx.z
#define NGX gridDim.x
#define NGY gridDim.y
#define LSX blockDim.x
#define LSY blockDim.y
#define LSZ blockDim.z
#define WG_SHARED_INT(name, count) __shared__ int name[count]
#define WG_BARRIER() __syncthreads()
extern "C" __global__ void st_wg_cuda(int * out, int * out2, const int * in, const int tag) {
#include "st_wg_body.inc"
}
// the last work-item of the group leaves before the barrier: can never be released on a device
extern "C" __global__ void st_wg_cuda_diverge(int * out) {
  if (threadIdx.x + 1 == blockDim.x) return;
  __syncthreads();
  out[threadIdx.x] = 1;
}
// writes one element past a __shared__ array when bad != 0
extern "C" __global__ void st_wg_cuda_oob(int * out, const int bad) {
  __shared__ int s[4];
  s[threadIdx.x + (bad ? 4 : 0)] = 7;
  __syncthreads();
  out[threadIdx.x] = s[threadIdx.x + (bad ? 4 : 0)];
}
// atomics with the documented signatures
extern "C" __global__ void st_wg_cuda_atomic(int * cnt, unsigned int * ucnt) {
  atomicAdd(&cnt[0], (int) threadIdx.x + 1);
  atomicSub(&cnt[1], 2);
  atomicInc(&ucnt[0], 1000u);
  atomicDec(&ucnt[1], 1000u);
}
GPUEMU_GRID_ENTRY(st_wg_cuda_entry, st_wg_cuda(*(int**) args[0], *(int**) args[1], *(int**) args[2], *(int*) args[3]))
GPUEMU_GRID_ENTRY(st_wg_cuda_diverge_entry, st_wg_cuda_diverge(*(int**) args[0]))
GPUEMU_GRID_ENTRY(st_wg_cuda_oob_entry, st_wg_cuda_oob(*(int**) args[0], *(int*) args[1]))
GPUEMU_GRID_ENTRY(st_wg_cuda_atomic_entry, st_wg_cuda_atomic(*(int**) args[0], *(unsigned int**) args[1]))
