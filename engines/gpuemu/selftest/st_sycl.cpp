// hand-written SYCL kernel in the shape OCCA's dpcpp mode emits
#include <CL/sycl.hpp>
using namespace sycl;
#define GX item_.get_group(2)
#define GY item_.get_group(1)
#define GZ item_.get_group(0)
#define LX item_.get_local_id(2)
#define LY item_.get_local_id(1)
#define LZ item_.get_local_id(0)
#define NGX item_.get_group_range(2)
#define NGY item_.get_group_range(1)
#define NGZ item_.get_group_range(0)
#define LSX item_.get_local_range(2)
#define LSY item_.get_local_range(1)
#define LSZ item_.get_local_range(0)
extern "C" void st_sycl(sycl::queue * queue_, sycl::nd_range<3> * range_,
                        int * out, int * counter, const int & tag) {
  queue_->submit(
    [&](sycl::handler & handler_) {
      handler_.parallel_for(
        *range_,
        [=](sycl::nd_item<3> item_) {
#include "st_body.inc"
          if (item_.get_global_id(1) != GY * LSY + LY) out[8 * slot + 6] = -1;
        }
      );
    }
  );
}
GPUEMU_SYCL_ENTRY(st_sycl_entry, st_sycl(queue_, range_, *(int**) args[0], *(int**) args[1], *(int*) args[2]))
