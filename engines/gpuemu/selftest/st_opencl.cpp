// hand-written OpenCL C kernel (compiled with -include gpuemu/opencl_c.h)
#pragma OPENCL EXTENSION cl_khr_fp64 : enable
#define GX get_group_id(0)
#define GY get_group_id(1)
#define GZ get_group_id(2)
#define LX get_local_id(0)
#define LY get_local_id(1)
#define LZ get_local_id(2)
#define NGX get_num_groups(0)
#define NGY get_num_groups(1)
#define NGZ get_num_groups(2)
#define LSX get_local_size(0)
#define LSY get_local_size(1)
#define LSZ get_local_size(2)
__kernel void st_opencl(__global int * out, __global int * counter, const int tag);
__kernel void st_opencl(__global int * out, __global int * counter, const int tag) {
#include "st_body.inc"
  // global id / size must be consistent with group*local
  if (get_global_id(1) != GY * LSY + LY || get_global_size(2) != NGZ * LSZ) out[8 * slot + 6] = -1;
}
GPUEMU_GRID_ENTRY(st_opencl_entry, st_opencl(*(int**) args[0], *(int**) args[1], *(int*) args[2]))
