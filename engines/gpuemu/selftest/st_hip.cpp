// hand-written HIP kernel
#include <hip/hip_runtime.h>
#define GX blockIdx.x
#define GY blockIdx.y
#define GZ blockIdx.z
#define LX threadIdx.x
#define LY threadIdx.y
#define LZ threadIdx.z
#define NGX gridDim.x
#define NGY gridDim.y
#define NGZ gridDim.z
#define LSX blockDim.x
#define LSY blockDim.y
#define LSZ blockDim.z
extern "C" __global__ __launch_bounds__(6) void st_hip(int * out, int * counter, const int tag) {
#include "st_body.inc"
}
GPUEMU_GRID_ENTRY(st_hip_entry, st_hip(*(int**) args[0], *(int**) args[1], *(int*) args[2]))
