// hand-written OpenCL C work-group kernels (compiled with -include gpuemu/opencl_c.h -DGPUEMU_WORKGROUP)
#define GX get_group_id(0)
#define GY get_group_id(1)
#define GZ get_group_id(2)
#define LX get_local_id(0)
#define LY get_local_id(1)
#define LZ get_local_id(2)
#define NGX get_num_groups(0)
#define NGY get_num_groups(1)
#define LSX get_local_size(0)
#define LSY get_local_size(1)
#define LSZ get_local_size(2)
#define WG_SHARED_INT(name, count) __local int name[count]
#define WG_BARRIER() barrier(CLK_LOCAL_MEM_FENCE)
__kernel void st_wg_opencl(__global int * out, __global int * out2, __global const int * in, const int tag) {
#include "st_wg_body.inc"
}
__kernel void st_wg_opencl_diverge(__global int * out) {
  if (get_local_id(0) + 1 == get_local_size(0)) return;
  barrier(CLK_LOCAL_MEM_FENCE);
  out[get_local_id(0)] = 1;
}
__kernel void st_wg_opencl_oob(__global int * out, const int bad) {
  __local int s[4];
  s[get_local_id(0) + (bad ? 4 : 0)] = 7;
  barrier(CLK_LOCAL_MEM_FENCE);
  out[get_local_id(0)] = s[get_local_id(0) + (bad ? 4 : 0)];
}
GPUEMU_GRID_ENTRY(st_wg_opencl_entry, st_wg_opencl(*(int**) args[0], *(int**) args[1], *(int**) args[2], *(int*) args[3]))
GPUEMU_GRID_ENTRY(st_wg_opencl_diverge_entry, st_wg_opencl_diverge(*(int**) args[0]))
GPUEMU_GRID_ENTRY(st_wg_opencl_oob_entry, st_wg_opencl_oob(*(int**) args[0], *(int*) args[1]))
