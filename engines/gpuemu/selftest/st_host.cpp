// gpuemu self-test: hand-written kernels with known results.  Must print GPUEMU-SELFTEST PASS.
//   1. every language stub: a 3-D launch visits every (group, local) coordinate exactly once and the
//      extent built-ins report the launch extents;
//   2. a hand-written launcher in the shape OCCA generates, run through the real occa::kernel:
//      dims computed from run-time arguments arrive at the device entry, arguments (scalars and
//      occa::memory) arrive intact, a zero extent makes the launch a no-op;
//   3. runGrid refuses zero-sized and oversized launches; barrier() in a multi-item group is refused
//      by the sequential executor.
#include <cstdio>
#include <cstring>
#include <set>
#include <vector>

#include <occa.hpp>
#include "../occa_launch.hpp"

#define ENTRY(name) extern "C" void name(void **args, const size_t outer[3], const size_t inner[3])
ENTRY(st_cuda_entry);
ENTRY(st_cuda_barrier_entry);
ENTRY(st_hip_entry);
ENTRY(st_opencl_entry);
ENTRY(st_metal_entry);
ENTRY(st_sycl_entry);

static int failures = 0;

#define CHECK(cond, ...) do { if (!(cond)) { ++failures; std::printf("FAIL %s:%d: ", __FILE__, __LINE__); std::printf(__VA_ARGS__); std::printf("\n"); } } while (0)

// expected record set for a launch, computed independently of gpuemu::runGrid
static bool recordsOk(const char *what, const std::vector<int> &out, int count, int tag,
                      const size_t outer[3], const size_t inner[3]) {
  const size_t total = outer[0] * outer[1] * outer[2] * inner[0] * inner[1] * inner[2];
  if ((size_t) count != total) {
    std::printf("FAIL %s: %d records, expected %zu\n", what, count, total);
    return false;
  }
  std::set<std::vector<int> > seen;
  const int ext = (int) (1000 * (outer[0] + 10 * outer[1] + 100 * outer[2]) + (inner[0] + 10 * inner[1] + 100 * inner[2]));
  for (int s = 0; s < count; ++s) {
    std::vector<int> r(out.begin() + 8 * s, out.begin() + 8 * s + 6);
    for (int d = 0; d < 3; ++d) {
      if (r[d] < 0 || (size_t) r[d] >= outer[d] || r[3 + d] < 0 || (size_t) r[3 + d] >= inner[d]) {
        std::printf("FAIL %s: record %d out of range\n", what, s);
        return false;
      }
    }
    if (out[8 * s + 6] != tag || out[8 * s + 7] != ext) {
      std::printf("FAIL %s: record %d tag/extent %d/%d expected %d/%d\n", what, s, out[8 * s + 6], out[8 * s + 7], tag, ext);
      return false;
    }
    if (!seen.insert(r).second) {
      std::printf("FAIL %s: coordinate visited twice\n", what);
      return false;
    }
  }
  return seen.size() == total;
}

static void testEntry(const char *what, gpuemu::Entry entry) {
  const size_t dimsList[4][6] = {
    {1, 1, 1, 1, 1, 1},
    {2, 3, 1, 3, 1, 2},
    {1, 2, 4, 2, 2, 1},
    {5, 1, 1, 1, 4, 1},
  };
  for (int t = 0; t < 4; ++t) {
    const size_t *outer = dimsList[t], *inner = dimsList[t] + 3;
    std::vector<int> out(8 * 64, -7);
    int counter = 0;
    int tag = 40 + t;
    int *outPtr = &out[0], *counterPtr = &counter;
    void *args[3] = {&outPtr, &counterPtr, &tag};
    entry(args, outer, inner);
    if (!recordsOk(what, out, counter, tag, outer, inner)) {
      ++failures;
    }
  }
}

// ---- hand-written launcher, in the shape withLauncher::setKernelLaunch produces
extern "C" void st_launch(occa::modeKernel_t ** deviceKernels,
                          occa::modeMemory_t * out,
                          occa::modeMemory_t * counter,
                          const int & tag,
                          const int & A,
                          const int & B) {
  {
    occa::dim outer, inner;
    outer.dims = 2;
    inner.dims = 3;
    int o1 = 0;
    outer[1] = A - 0;
    int o0 = 1;
    outer[0] = (B - 1 + 2 - 1) / 2;
    int i2 = 0;
    inner[2] = 2 - 0;
    int i1 = 0;
    inner[1] = 1 + B - 3;
    int i0 = 0;
    inner[0] = A;
    occa::kernel kernel(deviceKernels[0]);
    kernel.setRunDims(outer, inner);
    kernel(out, counter, tag);
  }
}

static void testLauncher() {
  gpuemu::Host host;
  gpuemu::emuKernel *dk = host.kernel("st_cuda", st_cuda_entry);
  occa::modeKernel_t *deviceKernels[1] = {dk};
  for (int A = 0; A <= 2; ++A) {
    for (int B = 3; B <= 5; ++B) {
      std::vector<int> zeros(8 * 64, -7);
      int zero = 0;
      occa::memory out = host.device.malloc<int>(8 * 64, &zeros[0]);
      occa::memory counter = host.device.malloc<int>(1, &zero);
      const size_t runsBefore = dk->runs;
      const int tag = 90 + A;
      st_launch(deviceKernels, out.getModeMemory(), counter.getModeMemory(), tag, A, B);
      const size_t outer[3] = {(size_t) ((B - 1 + 2 - 1) / 2), (size_t) A, 1};
      const size_t inner[3] = {(size_t) A, (size_t) (1 + B - 3), 2};
      int count = -1;
      counter.copyTo(&count);
      std::vector<int> got(8 * 64);
      out.copyTo(&got[0]);
      if (A == 0) {
        CHECK(dk->runs == runsBefore, "zero extent must be a no-op (A=%d B=%d)", A, B);
        CHECK(count == 0, "no-op launch executed %d items", count);
      } else {
        CHECK(dk->runs == runsBefore + 1, "launch did not reach the device kernel (A=%d B=%d)", A, B);
        for (int d = 0; d < 3; ++d) {
          CHECK(dk->lastOuter[d] == outer[d] && dk->lastInner[d] == inner[d],
                "dims mismatch in dimension %d (A=%d B=%d): outer %zu inner %zu", d, A, B, dk->lastOuter[d], dk->lastInner[d]);
        }
        if (!recordsOk("launcher", got, count, tag, outer, inner)) ++failures;
      }
    }
  }
}

static void testRefusals() {
  int calls = 0;
  const size_t one[3] = {1, 1, 1};
  const size_t zero[3] = {2, 0, 1};
  const size_t big[3] = {size_t(1) << 40, size_t(1) << 40, 1};
  const size_t huge[3] = {~size_t(0), 1, 1};
  bool threw = false;
  try { gpuemu::runGrid(zero, one, [&]() { ++calls; }); } catch (gpuemu::launch_error&) { threw = true; }
  CHECK(threw && !calls, "zero-sized launch not refused");
  threw = false;
  try { gpuemu::runGrid(big, one, [&]() { ++calls; }); } catch (gpuemu::launch_error&) { threw = true; }
  CHECK(threw && !calls, "overflowing launch not refused");
  threw = false;
  try { gpuemu::runGrid(huge, one, [&]() { ++calls; }); } catch (gpuemu::launch_error&) { threw = true; }
  CHECK(threw && !calls, "huge launch not refused");
  CHECK(!gpuemu::cur().active, "active flag left set");
  gpuemu::runGrid(one, one, [&]() { ++calls; });
  CHECK(calls == 1, "1x1 launch ran %d times", calls);

  // barrier: fine in a 1-item group, refused in a larger one by the sequential executor
  int buf[4] = {0, 0, 0, 0};
  int *bufPtr = buf;
  void *args[1] = {&bufPtr};
  const size_t two[3] = {2, 1, 1};
  threw = false;
  try { st_cuda_barrier_entry(args, two, one); } catch (gpuemu::launch_error&) { threw = true; }
  CHECK(!threw && buf[0] == 1, "barrier in 1-item groups");
  threw = false;
  try { st_cuda_barrier_entry(args, one, two); } catch (gpuemu::launch_error&) { threw = true; }
  CHECK(threw, "barrier in a 2-item group must be refused by the sequential executor");
  CHECK(!gpuemu::cur().active, "active flag left set after exception");
}

int main() {
  testEntry("cuda", st_cuda_entry);
  testEntry("hip", st_hip_entry);
  testEntry("opencl", st_opencl_entry);
  testEntry("metal", st_metal_entry);
  testEntry("sycl", st_sycl_entry);
  testLauncher();
  testRefusals();
  if (failures) {
    std::printf("GPUEMU-SELFTEST FAIL (%d)\n", failures);
    return 1;
  }
  std::printf("GPUEMU-SELFTEST PASS launches=%zu groups=%zu items=%zu\n",
              gpuemu::stats().launches, gpuemu::stats().groups, gpuemu::stats().items);
  return 0;
}
