// gpuemu race-pass self-test: hand-written kernels with known verdicts.  Prints GPUEMU-RACE-SELFTEST PASS.
#include <cstdio>
#include <cstring>
#include <string>
#include <vector>
#include "../gpuemu/workgroup.hpp"

extern "C" {
  void gpuemu_race_reset();
  void gpuemu_race_add_range(const char *name, const void *ptr, size_t bytes);
  const char* gpuemu_race_report();
  size_t gpuemu_race_accesses();
  size_t gpuemu_race_atomics();
}
#define ENTRY(name) extern "C" void name(void **args, const size_t outer[3], const size_t inner[3])
ENTRY(st_race_plain_counter_entry); ENTRY(st_race_atomic_counter_entry); ENTRY(st_race_mixed_counter_entry);
ENTRY(st_race_shared_ok_entry); ENTRY(st_race_shared_nobarrier_entry); ENTRY(st_race_global_phases_entry);
ENTRY(st_race_global_cross_group_entry);
ENTRY(st_race_cl_plain_entry); ENTRY(st_race_cl_atomic_entry); ENTRY(st_race_cl_local_ok_entry);
ENTRY(st_race_mtl_plain_entry); ENTRY(st_race_mtl_tg_ok_entry);
ENTRY(st_race_sycl_plain_entry); ENTRY(st_race_sycl_atomic_entry); ENTRY(st_race_sycl_local_ok_entry);

static int failures = 0;
#define CHECK(cond, ...) do { if (!(cond)) { ++failures; std::printf("FAIL %s:%d: ", __FILE__, __LINE__); std::printf(__VA_ARGS__); std::printf("\n"); } } while (0)

static int cnt[4], in[12], out[12], tmp[12];

static std::string run1(gpuemu::Entry e, int *a, const size_t *outer, const size_t *inner) {
  gpuemu_race_reset();
  gpuemu_race_add_range("cnt", cnt, sizeof(cnt));
  gpuemu_race_add_range("out", out, sizeof(out));
  gpuemu_race_add_range("tmp", tmp, sizeof(tmp));
  gpuemu_race_add_range("in", in, sizeof(in));
  std::memset(cnt, 0, sizeof(cnt));
  void *args[1] = {&a};
  e(args, outer, inner);
  return gpuemu_race_report();
}

static std::string run2(gpuemu::Entry e, int *a, int *b, const size_t *outer, const size_t *inner) {
  gpuemu_race_reset();
  gpuemu_race_add_range("cnt", cnt, sizeof(cnt));
  gpuemu_race_add_range("out", out, sizeof(out));
  gpuemu_race_add_range("tmp", tmp, sizeof(tmp));
  gpuemu_race_add_range("in", in, sizeof(in));
  void *args[2] = {&a, &b};
  e(args, outer, inner);
  return gpuemu_race_report();
}

static bool has(const std::string &s, const char *what) { return s.find(what) != std::string::npos; }

int main() {
  const size_t g3[3] = {3, 1, 1}, g1[3] = {1, 1, 1}, l4[3] = {4, 1, 1}, l1[3] = {1, 1, 1};
  for (int k = 0; k < 12; ++k) in[k] = k + 1;
  std::string r;
  // plain counter: race inside a group and between groups
  r = run1(st_race_plain_counter_entry, cnt, g3, l4);
  CHECK(has(r, "cnt plainw-plainw same-group") && has(r, "cnt plainw-plainw different-groups") && cnt[0] == 12, "cuda plain counter: '%s'", r.c_str());
  r = run1(st_race_plain_counter_entry, cnt, g1, l1);
  CHECK(r.empty(), "a single work-item can not race: '%s'", r.c_str());
  r = run1(st_race_plain_counter_entry, cnt, g3, l1);
  CHECK(has(r, "different-groups") && !has(r, "same-group"), "1-item groups: '%s'", r.c_str());
  // atomic counter: none
  r = run1(st_race_atomic_counter_entry, cnt, g3, l4);
  CHECK(r.empty() && cnt[0] == 12 && cnt[1] == -12 && gpuemu_race_atomics() > 0, "cuda atomic counter: '%s' %d %d", r.c_str(), cnt[0], cnt[1]);
  // atomic in some items, plain in others: race
  r = run1(st_race_mixed_counter_entry, cnt, g1, l4);
  CHECK(has(r, "cnt atomic") && has(r, "plainw"), "cuda mixed counter: '%s'", r.c_str());
  // shared memory with a barrier: none, also with several groups reusing the emulator's single instance
  r = run2(st_race_shared_ok_entry, out, in, g3, l4);
  CHECK(r.empty() && out[0] == 4 && out[11] == 9 && gpuemu_race_accesses() > 0, "cuda shared ok: '%s' out[0]=%d out[11]=%d", r.c_str(), out[0], out[11]);
  r = run2(st_race_shared_nobarrier_entry, out, in, g3, l4);
  CHECK(has(r, "group-shared plainw-plainr same-group") || has(r, "group-shared plainr-plainw same-group"), "cuda shared without barrier: '%s'", r.c_str());
  CHECK(!has(r, "different-groups"), "group-shared memory of different groups must not be compared: '%s'", r.c_str());
  // global memory across a barrier inside one group: ordered; across groups: race
  r = run2(st_race_global_phases_entry, out, tmp, g3, l4);
  CHECK(r.empty(), "global exchange inside a group across a barrier: '%s'", r.c_str());
  r = run2(st_race_global_cross_group_entry, out, tmp, g3, l4);
  CHECK(has(r, "tmp") && has(r, "different-groups") && !has(r, "same-group"), "global exchange across groups: '%s'", r.c_str());
  // OpenCL
  r = run1(st_race_cl_plain_entry, cnt, g3, l4);
  CHECK(has(r, "cnt plainw-plainw"), "opencl plain: '%s'", r.c_str());
  r = run1(st_race_cl_atomic_entry, cnt, g3, l4);
  CHECK(r.empty() && cnt[0] == 12 && cnt[1] == 12, "opencl atomic: '%s'", r.c_str());
  r = run2(st_race_cl_local_ok_entry, out, in, g3, l4);
  CHECK(r.empty() && out[0] == 4, "opencl local ok: '%s'", r.c_str());
  // Metal
  r = run1(st_race_mtl_plain_entry, cnt, g3, l4);
  CHECK(has(r, "cnt plainw-plainw"), "metal plain: '%s'", r.c_str());
  r = run2(st_race_mtl_tg_ok_entry, out, in, g3, l4);
  CHECK(r.empty() && out[0] == 4, "metal threadgroup ok: '%s'", r.c_str());
  // SYCL
  r = run1(st_race_sycl_plain_entry, cnt, g3, l4);
  CHECK(has(r, "cnt plainw-plainw"), "sycl plain: '%s'", r.c_str());
  r = run1(st_race_sycl_atomic_entry, cnt, g3, l4);
  CHECK(r.empty() && cnt[0] == 12 && cnt[1] == 12, "sycl atomic_ref: '%s'", r.c_str());
  r = run2(st_race_sycl_local_ok_entry, out, in, g3, l4);
  CHECK(r.empty() && out[0] == 4 && out[11] == 9, "sycl local ok: '%s'", r.c_str());
  if (failures) {
    std::printf("GPUEMU-RACE-SELFTEST FAIL (%d)\n", failures);
    return 1;
  }
  std::printf("GPUEMU-RACE-SELFTEST PASS\n");
  return 0;
}
