// race-pass self-test kernels, CUDA spelling (-include gpuemu/cuda.h -DGPUEMU_WORKGROUP -DGPUEMU_RACE -fsanitize=thread)
extern "C" __global__ void st_race_plain_counter(int * cnt) { cnt[0] += 1; }
extern "C" __global__ void st_race_atomic_counter(int * cnt) { atomicAdd(&cnt[0], 1); atomicSub(&cnt[1], 1); }
extern "C" __global__ void st_race_mixed_counter(int * cnt) {
  if (threadIdx.x & 1) { cnt[0] += 1; } else { atomicAdd(&cnt[0], 1); }
}
extern "C" __global__ void st_race_shared_ok(int * out, const int * in) {
  __shared__ int s[4];
  const int l = threadIdx.x, base = blockIdx.x * blockDim.x;
  s[l] = in[base + l];
  __syncthreads();
  out[base + l] = s[blockDim.x - 1 - l];
}
extern "C" __global__ void st_race_shared_nobarrier(int * out, const int * in) {
  __shared__ int s[4];
  const int l = threadIdx.x, base = blockIdx.x * blockDim.x;
  s[l] = in[base + l];
  out[base + l] = s[blockDim.x - 1 - l];
}
// global memory exchanged inside a group across a barrier: ordered
extern "C" __global__ void st_race_global_phases(int * out, int * tmp) {
  const int l = threadIdx.x, base = blockIdx.x * blockDim.x;
  tmp[base + l] = 10 * l;
  __syncthreads();
  out[base + l] = tmp[base + (l + 1) % blockDim.x];
}
// the same, but the neighbour belongs to another group: no barrier orders that
extern "C" __global__ void st_race_global_cross_group(int * out, int * tmp) {
  const int l = threadIdx.x, base = blockIdx.x * blockDim.x, total = gridDim.x * blockDim.x;
  tmp[base + l] = 10 * l;
  __syncthreads();
  out[base + l] = tmp[(base + l + 1) % total];
}
GPUEMU_GRID_ENTRY(st_race_plain_counter_entry, st_race_plain_counter(*(int**) args[0]))
GPUEMU_GRID_ENTRY(st_race_atomic_counter_entry, st_race_atomic_counter(*(int**) args[0]))
GPUEMU_GRID_ENTRY(st_race_mixed_counter_entry, st_race_mixed_counter(*(int**) args[0]))
GPUEMU_GRID_ENTRY(st_race_shared_ok_entry, st_race_shared_ok(*(int**) args[0], *(const int**) args[1]))
GPUEMU_GRID_ENTRY(st_race_shared_nobarrier_entry, st_race_shared_nobarrier(*(int**) args[0], *(const int**) args[1]))
GPUEMU_GRID_ENTRY(st_race_global_phases_entry, st_race_global_phases(*(int**) args[0], *(int**) args[1]))
GPUEMU_GRID_ENTRY(st_race_global_cross_group_entry, st_race_global_cross_group(*(int**) args[0], *(int**) args[1]))
