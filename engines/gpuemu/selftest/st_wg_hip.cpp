// hand-written HIP work-group kernel (-DGPUEMU_WORKGROUP)
#include <hip/hip_runtime.h>
#define GX blockIdx.x
#define GY blockIdx.y
#define GZ blockIdx.z
#define LX threadIdx.x
#define LY threadIdx.y
#define LZ threadIdx.z
#define NGX gridDim.x
#define NGY gridDim.y
#define LSX blockDim.x
#define LSY blockDim.y
#define LSZ blockDim.z
#define WG_SHARED_INT(name, count) __shared__ int name[count]
#define WG_BARRIER() __syncthreads()
extern "C" __global__ void st_wg_hip(int * out, int * out2, const int * in, const int tag) {
#include "st_wg_body.inc"
}
GPUEMU_GRID_ENTRY(st_wg_hip_entry, st_wg_hip(*(int**) args[0], *(int**) args[1], *(int**) args[2], *(int*) args[3]))
