// hand-written Metal kernel
#include <metal_compute>
#include <metal_stdlib>
using namespace metal;
#define GX gp.x
#define GY gp.y
#define GZ gp.z
#define LX tp.x
#define LY tp.y
#define LZ tp.z
// Metal has no extent built-ins in the parameter list used by OCCA: take them from the model
#define NGX gpuemu::cur().ngroups[0]
#define NGY gpuemu::cur().ngroups[1]
#define NGZ gpuemu::cur().ngroups[2]
#define LSX gpuemu::cur().lsize[0]
#define LSY gpuemu::cur().lsize[1]
#define LSZ gpuemu::cur().lsize[2]
kernel void st_metal(device int * out [[buffer(0)]],
                     device int * counter [[buffer(1)]],
                     constant int & tag [[buffer(2)]],
                     uint3 gp [[threadgroup_position_in_grid]],
                     uint3 tp [[thread_position_in_threadgroup]]) {
#include "st_body.inc"
}
GPUEMU_GRID_ENTRY(st_metal_entry, st_metal(*(int**) args[0], *(int**) args[1], *(int*) args[2],
                                           gpuemu::metalGroupPosition(), gpuemu::metalThreadPosition()))
