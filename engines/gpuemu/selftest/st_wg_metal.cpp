// hand-written Metal work-group kernels (-DGPUEMU_WORKGROUP)
#include <metal_compute>
#include <metal_stdlib>
using namespace metal;
#define GX gp.x
#define GY gp.y
#define GZ gp.z
#define LX tp.x
#define LY tp.y
#define LZ tp.z
#define NGX gpuemu::cur().ngroups[0]
#define NGY gpuemu::cur().ngroups[1]
#define LSX gpuemu::cur().lsize[0]
#define LSY gpuemu::cur().lsize[1]
#define LSZ gpuemu::cur().lsize[2]
#define WG_SHARED_INT(name, count) threadgroup int name[count]
#define WG_BARRIER() threadgroup_barrier(mem_flags::mem_threadgroup)
kernel void st_wg_metal(device int * out [[buffer(0)]],
                        device int * out2 [[buffer(1)]],
                        device const int * in [[buffer(2)]],
                        constant int & tag [[buffer(3)]],
                        uint3 gp [[threadgroup_position_in_grid]],
                        uint3 tp [[thread_position_in_threadgroup]]) {
#include "st_wg_body.inc"
}
kernel void st_wg_metal_diverge(device int * out [[buffer(0)]],
                                uint3 gp [[threadgroup_position_in_grid]],
                                uint3 tp [[thread_position_in_threadgroup]]) {
  if (tp.x + 1 == gpuemu::cur().lsize[0]) return;
  threadgroup_barrier(mem_flags::mem_threadgroup);
  out[tp.x] = 1;
}
GPUEMU_GRID_ENTRY(st_wg_metal_entry, st_wg_metal(*(int**) args[0], *(int**) args[1], *(int**) args[2], *(int*) args[3],
                                                 gpuemu::metalGroupPosition(), gpuemu::metalThreadPosition()))
GPUEMU_GRID_ENTRY(st_wg_metal_diverge_entry, st_wg_metal_diverge(*(int**) args[0],
                                                 gpuemu::metalGroupPosition(), gpuemu::metalThreadPosition()))
