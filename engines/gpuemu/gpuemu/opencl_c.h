// gpuemu stub for OpenCL C device source compiled as C++ - force-include it (-include gpuemu/opencl_c.h).
// The TU must contain nothing else but the emulated device code and its Entry trampolines.
// OCCA launches OpenCL kernels with global size = outer*inner and local size = inner, so
// group id / local id are the (outer, inner) coordinates of the launch model in ../gpuemu.hpp.
#ifndef VERIF_GPUEMU_OPENCL_C_H
#define VERIF_GPUEMU_OPENCL_C_H

#include "../gpuemu.hpp"

typedef unsigned int uint;

// work-item functions return size_t, as in OpenCL C; an out-of-range dimension yields 0 (1 for sizes)
inline size_t get_group_id(uint d)    { return d < 3 ? gpuemu::cur().group[d] : 0; }
inline size_t get_local_id(uint d)    { return d < 3 ? gpuemu::cur().local[d] : 0; }
inline size_t get_local_size(uint d)  { return d < 3 ? gpuemu::cur().lsize[d] : 1; }
inline size_t get_num_groups(uint d)  { return d < 3 ? gpuemu::cur().ngroups[d] : 1; }
inline size_t get_global_id(uint d)   { return d < 3 ? gpuemu::cur().group[d] * gpuemu::cur().lsize[d] + gpuemu::cur().local[d] : 0; }
inline size_t get_global_size(uint d) { return d < 3 ? gpuemu::cur().ngroups[d] * gpuemu::cur().lsize[d] : 1; }

#define CLK_LOCAL_MEM_FENCE  1
#define CLK_GLOBAL_MEM_FENCE 2
inline void barrier(int) { gpuemu::barrier(); }

#define __kernel
#define __global
#define __private
#define __constant const
#define restrict __restrict__
// __local is deliberately NOT defined (per-group storage belongs to the fiber-executor extension)

#define GPUEMU_GRID_ENTRY(entryName, callExpr)                                        \
  extern "C" void entryName(void **args, const size_t outer[3], const size_t inner[3]) { \
    gpuemu::runGrid(outer, inner, [&]() { callExpr; });                                 \
  }

#endif
