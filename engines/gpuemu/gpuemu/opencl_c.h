// gpuemu stub for OpenCL C device source compiled as C++ - force-include it (-include gpuemu/opencl_c.h).
// The TU must contain nothing else but the emulated device code and its Entry trampolines.
// OCCA launches OpenCL kernels with global size = outer*inner and local size = inner, so
// group id / local id are the (outer, inner) coordinates of the launch model in ../gpuemu.hpp.
#ifndef VERIF_GPUEMU_OPENCL_C_H
#define VERIF_GPUEMU_OPENCL_C_H

#include "../gpuemu.hpp"
#ifdef GPUEMU_WORKGROUP
#include "workgroup.hpp"
#endif

typedef unsigned int uint;

// work-item functions return size_t, as in OpenCL C; an out-of-range dimension yields 0 (1 for sizes)
inline size_t get_group_id(uint d)    { return d < 3 ? gpuemu::cur().group[d] : 0; }
inline size_t get_local_id(uint d)    { return d < 3 ? gpuemu::cur().local[d] : 0; }
inline size_t get_local_size(uint d)  { return d < 3 ? gpuemu::cur().lsize[d] : 1; }
inline size_t get_num_groups(uint d)  { return d < 3 ? gpuemu::cur().ngroups[d] : 1; }
inline size_t get_global_id(uint d)   { return d < 3 ? gpuemu::cur().group[d] * gpuemu::cur().lsize[d] + gpuemu::cur().local[d] : 0; }
inline size_t get_global_size(uint d) { return d < 3 ? gpuemu::cur().ngroups[d] * gpuemu::cur().lsize[d] : 1; }

#define CLK_LOCAL_MEM_FENCE  1
#define CLK_GLOBAL_MEM_FENCE 2
inline void barrier(int) { gpuemu::barrier(); }

#define __kernel
#define __global
#define __private
#define __constant const
#define restrict __restrict__
// __local is only defined with -DGPUEMU_WORKGROUP (fiber executor, see workgroup.hpp)
#ifdef GPUEMU_WORKGROUP
// a __local variable declared in a kernel: one instance for the group that is running
#ifdef GPUEMU_RACE
#define __local static __attribute__((section("gpuemu_shared")))
#else
#define __local static
#endif
// OpenCL C 1.1 atomic functions on 32-bit integers in global/local memory (6.11.11)
#define GPUEMU_CL_ATOMIC2(T, name, expr) \
  inline T name(volatile T *p, T val) { return gpuemu::atomicRmw(const_cast<T*>(p), [=](T old) { return (T) (expr); }); }
#define GPUEMU_CL_ATOMIC1(T, name, expr) \
  inline T name(volatile T *p) { return gpuemu::atomicRmw(const_cast<T*>(p), [=](T old) { return (T) (expr); }); }
GPUEMU_CL_ATOMIC2(int, atomic_add, (unsigned int) old + (unsigned int) val)
GPUEMU_CL_ATOMIC2(unsigned int, atomic_add, old + val)
GPUEMU_CL_ATOMIC2(int, atomic_sub, (unsigned int) old - (unsigned int) val)
GPUEMU_CL_ATOMIC2(unsigned int, atomic_sub, old - val)
GPUEMU_CL_ATOMIC2(int, atomic_xchg, val)
GPUEMU_CL_ATOMIC2(unsigned int, atomic_xchg, val)
GPUEMU_CL_ATOMIC1(int, atomic_inc, (unsigned int) old + 1u)
GPUEMU_CL_ATOMIC1(unsigned int, atomic_inc, old + 1u)
GPUEMU_CL_ATOMIC1(int, atomic_dec, (unsigned int) old - 1u)
GPUEMU_CL_ATOMIC1(unsigned int, atomic_dec, old - 1u)
GPUEMU_CL_ATOMIC2(int, atomic_min, (val < old ? val : old))
GPUEMU_CL_ATOMIC2(unsigned int, atomic_min, (val < old ? val : old))
GPUEMU_CL_ATOMIC2(int, atomic_max, (val > old ? val : old))
GPUEMU_CL_ATOMIC2(unsigned int, atomic_max, (val > old ? val : old))
GPUEMU_CL_ATOMIC2(int, atomic_and, old & val)
GPUEMU_CL_ATOMIC2(unsigned int, atomic_and, old & val)
GPUEMU_CL_ATOMIC2(int, atomic_or, old | val)
GPUEMU_CL_ATOMIC2(unsigned int, atomic_or, old | val)
GPUEMU_CL_ATOMIC2(int, atomic_xor, old ^ val)
GPUEMU_CL_ATOMIC2(unsigned int, atomic_xor, old ^ val)
#undef GPUEMU_CL_ATOMIC1
#undef GPUEMU_CL_ATOMIC2
#endif

#define GPUEMU_GRID_ENTRY(entryName, callExpr)                                        \
  extern "C" void entryName(void **args, const size_t outer[3], const size_t inner[3]) { \
    gpuemu::runGrid(outer, inner, [&]() { callExpr; });                                 \
  }

#endif
