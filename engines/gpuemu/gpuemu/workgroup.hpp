// gpuemu work-group semantics (TRUSTED BASE, extension of ../gpuemu.hpp):
//
//   * the work-items of ONE group are alive at the same time: each runs as a ucontext fiber on its own
//     stack (mmap'ed, guard page below it);
//   * barrier() = the calling item is suspended until every item of its group has reached a barrier;
//     then all of them continue (in item order x fastest; GPUEMU_ITEM_ORDER=desc reverses the order).  Items never run truly in parallel: an item
//     runs from its start / from a barrier to its next barrier / to its end without interruption, the
//     items of a group in ascending linear order in every phase, groups one after another.  That is ONE
//     of the executions the documented launch model allows; a kernel whose items are independent
//     between barriers has the same result in all of them;
//   * barrier divergence (some items of a group finish while others wait at a barrier) can never be
//     released on a device: reported as launch_error("barrier divergence ...");
//   * group-shared storage:
//       - CUDA/HIP `__shared__`, OpenCL `__local`, Metal `threadgroup` declarations inside the kernel are
//         function-local `static` objects (see the stub headers): one instance, seen by all items of the
//         group that is running; contents are NOT defined at the start of a group (they hold whatever
//         the previous group left, like on a device); ASan guards them with global red zones;
//       - SYCL `group_local_memory_for_overwrite<T>(group)`: the k-th call of every item of a group
//         returns the same exact-size heap block (one per group and call index, freed when the group
//         ends, filled with 0xA5 at allocation); a k-th call with a different size in two items of one
//         group is reported as launch_error.
//   * an exception thrown by an item (launch_error from a nested check, anything else) is caught on the
//     fiber, the remaining items of the group are abandoned and the exception is rethrown from runGrid.
//
// Enabled by compiling the device TU with -DGPUEMU_WORKGROUP (gpuemu.py: device_cmd(..., workgroup=True)):
// the stub headers then include this file, define the shared-memory qualifiers, and every TU installs
// the fiber executor at static-initialisation time.  Without the macro nothing changes (sequential
// executor, barriers refused in groups of more than one item, qualifiers undefined).
//
// Group-shared declarations get the section "gpuemu_shared" with -DGPUEMU_RACE (race pass: the monitor must know which
// addresses are per-group storage); see race_runtime.cpp.
//
// ASan: every switch is bracketed by __sanitizer_start_switch_fiber/__sanitizer_finish_switch_fiber,
// fiber stacks are unpoisoned before reuse.  Single-threaded; no clock; no randomness.
#ifndef VERIF_GPUEMU_WORKGROUP_HPP
#define VERIF_GPUEMU_WORKGROUP_HPP

#include "../gpuemu.hpp"

#include <ucontext.h>
#include <sys/mman.h>
#include <cstdlib>
#include <cstring>
#include <exception>
#include <vector>

// ASan fiber support through weak references: every TU gets the same inline code whatever its own sanitizer flags
// (device TUs of the race pass are TSan-instrumented, the rest of the executable is ASan-instrumented); the calls
// happen iff the ASan runtime is present in the process.
extern "C" {
  void __sanitizer_start_switch_fiber(void **fake_stack_save, const void *bottom, size_t size) __attribute__((weak));
  void __sanitizer_finish_switch_fiber(void *fake_stack_save, const void **bottom_old, size_t *size_old) __attribute__((weak));
  void __asan_unpoison_memory_region(void const volatile *addr, size_t size) __attribute__((weak));
}

// functions that run on a work-item's fiber but belong to the emulator: never instrumented by -fsanitize=thread
#define GPUEMU_EMU_FN __attribute__((no_sanitize("thread")))

namespace gpuemu {

  struct WorkgroupStats {
    size_t fiberGroups;      // groups run by the fiber executor
    size_t barrierReleases;  // times a whole group was released from a barrier
    size_t barrierWaits;     // barrier() calls
    size_t localAllocs;      // SYCL group-local blocks handed out
  };

  inline WorkgroupStats& workgroupStats() {
    static WorkgroupStats s = {0, 0, 0, 0};
    return s;
  }

  namespace wg {
    enum ItemState { Ready, AtBarrier, Done };

    struct Fiber {
      ucontext_t ctx;
      char *map;            // mmap base (guard page first)
      size_t mapSize;
      char *stack;          // usable stack bottom
      size_t stackSize;
      size_t local[3];
      ItemState state;
      void *fakeStack;      // ASan fake-stack handle of the suspended fiber
      size_t localCalls;    // SYCL group-local call index of this item
    };

    struct LocalBlock {
      void *ptr;
      size_t bytes;
    };

    struct Group {
      std::vector<Fiber*> pool;          // reused from group to group
      size_t n;                          // fibers in use
      size_t running;                    // index of the running fiber, or npos
      ucontext_t sched;
      void *schedFake;
      const void *schedBottom;
      size_t schedSize;
      const ItemFn *item;
      std::exception_ptr error;
      std::vector<LocalBlock> locals;    // SYCL group-local blocks of the running group
      bool active;
      size_t groupSeq;                   // number of groups started so far (identifies the running group)
      size_t phase;                      // barrier phase of the running group (number of releases so far)
      void (*groupEndHook)();            // race monitor: called when a group has finished (before its local blocks are freed)
      Group() : n(0), running(size_t(-1)), schedFake(0), schedBottom(0), schedSize(0), item(0), active(false),
                groupSeq(0), phase(0), groupEndHook(0) {}
      ~Group() {
        for (size_t i = 0; i < pool.size(); ++i) {
          munmap(pool[i]->map, pool[i]->mapSize);
          delete pool[i];
        }
        pool.clear();
      }
    };

    inline Group& group() {
      static Group g;
      return g;
    }

    inline size_t stackBytes() {
      static size_t v = 0;
      if (!v) {
        const char *e = std::getenv("GPUEMU_FIBER_STACK_KB");
        size_t kb = e ? (size_t) std::atol(e) : 256;
        if (kb < 64) kb = 64;
        v = kb * 1024;
      }
      return v;
    }

    // order in which the items of a group run inside every barrier phase: ascending linear index (default) or
    // descending (environment GPUEMU_ITEM_ORDER=desc).  A kernel with independent items gives the same result.
    inline int& itemOrderSetting() {
      static int v = -1;            // -1: not decided yet (environment), 0: ascending, 1: descending
      return v;
    }

    inline bool descendingOrder() {
      int &v = itemOrderSetting();
      if (v < 0) {
        const char *e = std::getenv("GPUEMU_ITEM_ORDER");
        v = (e && !std::strcmp(e, "desc")) ? 1 : 0;
      }
      return v == 1;
    }

    // overrides the environment (a harness that runs both orders in one process)
    inline void setDescendingOrder(bool descending) {
      itemOrderSetting() = descending ? 1 : 0;
    }

    inline Fiber* newFiber() {
      Fiber *f = new Fiber();
      const size_t page = 4096;
      f->stackSize = stackBytes();
      f->mapSize = f->stackSize + page;
      void *m = mmap(0, f->mapSize, PROT_READ | PROT_WRITE, MAP_PRIVATE | MAP_ANONYMOUS, -1, 0);
      if (m == MAP_FAILED) {
        delete f;
        throw launch_error("fiber stack allocation failed");
      }
      mprotect(m, page, PROT_NONE);            // overflow => SIGSEGV instead of silent corruption
      f->map = (char*) m;
      f->stack = f->map + page;
      f->fakeStack = 0;
      f->state = Done;
      f->localCalls = 0;
      return f;
    }

    GPUEMU_EMU_FN inline void startSwitch(void **fakeSave, const void *bottom, size_t size) {
      if (__sanitizer_start_switch_fiber) __sanitizer_start_switch_fiber(fakeSave, bottom, size);
    }

    GPUEMU_EMU_FN inline void finishSwitch(void *fake, const void **bottomOld, size_t *sizeOld) {
      if (__sanitizer_finish_switch_fiber) __sanitizer_finish_switch_fiber(fake, bottomOld, sizeOld);
    }

    // fiber -> scheduler
    GPUEMU_EMU_FN inline void yieldToScheduler(Fiber &f, bool final) {
      Group &g = group();
      startSwitch(final ? (void**) 0 : &f.fakeStack, g.schedBottom, g.schedSize);
      swapcontext(&f.ctx, &g.sched);
      // resumed (never for final)
      finishSwitch(f.fakeStack, &g.schedBottom, &g.schedSize);
    }

    GPUEMU_EMU_FN inline void trampoline() {
      Group &g = group();
      Fiber &f = *g.pool[g.running];
      finishSwitch(0, &g.schedBottom, &g.schedSize);
      try {
        (*g.item)();
      } catch (...) {
        if (!g.error) g.error = std::current_exception();
      }
      f.state = Done;
      yieldToScheduler(f, true);
      std::abort();   // a finished fiber is never resumed
    }

    // scheduler -> fiber i
    GPUEMU_EMU_FN inline void resume(size_t i) {
      Group &g = group();
      Fiber &f = *g.pool[i];
      WorkItem &w = cur();
      w.local[0] = f.local[0]; w.local[1] = f.local[1]; w.local[2] = f.local[2];
      g.running = i;
      startSwitch(&g.schedFake, f.stack, f.stackSize);
      swapcontext(&g.sched, &f.ctx);
      finishSwitch(g.schedFake, 0, 0);
      g.running = size_t(-1);
    }

    inline void freeLocals(Group &g) {
      for (size_t i = 0; i < g.locals.size(); ++i) {
        std::free(g.locals[i].ptr);
      }
      g.locals.clear();
    }
  }

  GPUEMU_EMU_FN inline void fiberBarrier() {
    wg::Group &g = wg::group();
    if (!g.active || g.running == size_t(-1)) {
      throw launch_error("barrier outside of a running work-item");
    }
    ++workgroupStats().barrierWaits;
    wg::Fiber &f = *g.pool[g.running];
    f.state = wg::AtBarrier;
    wg::yieldToScheduler(f, false);
    // released: cur().local was restored by resume()
  }

  GPUEMU_EMU_FN inline void fiberGroupExecutor(const size_t lsize[3], const ItemFn &item) {
    wg::Group &g = wg::group();
    if (g.active) {
      throw launch_error("nested group execution");
    }
    const size_t n = lsize[0] * lsize[1] * lsize[2];
    while (g.pool.size() < n) {
      g.pool.push_back(wg::newFiber());
    }
    g.n = n;
    g.item = &item;
    g.error = std::exception_ptr();
    g.active = true;
    ++g.groupSeq;
    g.phase = 0;
    ++workgroupStats().fiberGroups;
    size_t idx = 0;
    for (size_t lz = 0; lz < lsize[2]; ++lz) {
      for (size_t ly = 0; ly < lsize[1]; ++ly) {
        for (size_t lx = 0; lx < lsize[0]; ++lx, ++idx) {
          wg::Fiber &f = *g.pool[idx];
          f.local[0] = lx; f.local[1] = ly; f.local[2] = lz;
          f.state = wg::Ready;
          f.fakeStack = 0;
          f.localCalls = 0;
          if (__asan_unpoison_memory_region) __asan_unpoison_memory_region(f.stack, f.stackSize);
          getcontext(&f.ctx);
          f.ctx.uc_stack.ss_sp = f.stack;
          f.ctx.uc_stack.ss_size = f.stackSize;
          f.ctx.uc_link = 0;
          makecontext(&f.ctx, (void (*)()) wg::trampoline, 0);
          ++stats().items;
        }
      }
    }
    std::string failure;
    const bool descending = wg::descendingOrder();
    while (true) {
      for (size_t k = 0; k < n && !g.error; ++k) {
        const size_t i = descending ? (n - 1 - k) : k;
        if (g.pool[i]->state == wg::Ready) {
          wg::resume(i);
        }
      }
      if (g.error) break;
      size_t done = 0, waiting = 0;
      for (size_t i = 0; i < n; ++i) {
        done += (g.pool[i]->state == wg::Done);
        waiting += (g.pool[i]->state == wg::AtBarrier);
      }
      if (done == n) break;
      if (waiting == n) {
        ++workgroupStats().barrierReleases;
        ++g.phase;
        for (size_t i = 0; i < n; ++i) g.pool[i]->state = wg::Ready;
        continue;
      }
      failure = "barrier divergence: " + std::to_string(waiting) + " of " + std::to_string(n) +
                " work-items of a group wait at a barrier that the other " + std::to_string(done) +
                " never reach";
      break;
    }
    if (g.groupEndHook) g.groupEndHook();
    wg::freeLocals(g);
    g.active = false;
    g.item = 0;
    if (g.error) {
      std::exception_ptr e = g.error;
      g.error = std::exception_ptr();
      std::rethrow_exception(e);
    }
    if (!failure.empty()) {
      throw launch_error(failure);
    }
  }

  // SYCL group-local storage: see the header comment
  GPUEMU_EMU_FN inline void* groupLocalAlloc(size_t bytes) {
    wg::Group &g = wg::group();
    if (!g.active || g.running == size_t(-1)) {
      throw launch_error("group-local memory requested outside of a running work-item");
    }
    wg::Fiber &f = *g.pool[g.running];
    const size_t k = f.localCalls++;
    if (k < g.locals.size()) {
      if (g.locals[k].bytes != bytes) {
        throw launch_error("group-local memory: work-items of one group disagree on allocation " + std::to_string(k));
      }
      return g.locals[k].ptr;
    }
    if (k != g.locals.size()) {
      throw launch_error("group-local memory: allocation index out of sequence");
    }
    wg::LocalBlock b;
    b.bytes = bytes;
    b.ptr = std::malloc(bytes ? bytes : 1);
    if (!b.ptr) throw launch_error("group-local memory: out of memory");
    std::memset(b.ptr, 0xA5, bytes);
    g.locals.push_back(b);
    ++workgroupStats().localAllocs;
    return b.ptr;
  }

  // Atomic read-modify-write used by the stubs' atomic functions: a real atomic operation (compare-exchange), so
  // that a TSan-instrumented device TU (race pass, race_runtime.cpp) sees it as an atomic access.
  template <class T, class F>
  inline T atomicRmw(T *p, F f) {
    T old, desired;
    __atomic_load(p, &old, __ATOMIC_RELAXED);
    desired = f(old);
    while (!__atomic_compare_exchange(p, &old, &desired, false, __ATOMIC_RELAXED, __ATOMIC_RELAXED)) {
      desired = f(old);
    }
    return old;
  }

  inline void installWorkgroupExecutor() {
    setGroupExecutor(fiberGroupExecutor);
    barrierFn() = fiberBarrier;
  }

  namespace wg {
    struct Installer {
      Installer() { installWorkgroupExecutor(); }
    };
    static Installer installer_;
  }
}

#endif
