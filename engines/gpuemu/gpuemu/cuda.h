// gpuemu stub for CUDA (and HIP) device source - force-include it (-include gpuemu/cuda.h) in front of
// the translated source; that TU must contain nothing else but the emulated device code and its
// Entry trampolines.  See ../gpuemu.hpp for the launch model.
#ifndef VERIF_GPUEMU_CUDA_H
#define VERIF_GPUEMU_CUDA_H

#include "../gpuemu.hpp"
#ifdef GPUEMU_WORKGROUP
#include "workgroup.hpp"
#endif

struct uint3 { unsigned int x, y, z; };
struct dim3  { unsigned int x, y, z; };

namespace gpuemu {
  inline uint3 cudaBlockIdx()  { const WorkItem &w = cur(); uint3 r = {(unsigned) w.group[0], (unsigned) w.group[1], (unsigned) w.group[2]}; return r; }
  inline uint3 cudaThreadIdx() { const WorkItem &w = cur(); uint3 r = {(unsigned) w.local[0], (unsigned) w.local[1], (unsigned) w.local[2]}; return r; }
  inline dim3  cudaBlockDim()  { const WorkItem &w = cur(); dim3 r = {(unsigned) w.lsize[0], (unsigned) w.lsize[1], (unsigned) w.lsize[2]}; return r; }
  inline dim3  cudaGridDim()   { const WorkItem &w = cur(); dim3 r = {(unsigned) w.ngroups[0], (unsigned) w.ngroups[1], (unsigned) w.ngroups[2]}; return r; }
}

// built-in variables have type `const uint3` / `const dim3` with unsigned int members, as in CUDA
#define blockIdx  (gpuemu::cudaBlockIdx())
#define threadIdx (gpuemu::cudaThreadIdx())
#define blockDim  (gpuemu::cudaBlockDim())
#define gridDim   (gpuemu::cudaGridDim())

#define __global__
#define __device__
#define __host__
#define __forceinline__ inline
#define __launch_bounds__(...)
#define __syncthreads() gpuemu::barrier()
// __shared__ is only defined with -DGPUEMU_WORKGROUP (fiber executor, see workgroup.hpp): per-group
// storage needs every item of a group to be alive at the same time; without the macro a kernel using
// it does not compile against this minimal stub.
#ifdef GPUEMU_WORKGROUP
// a __shared__ variable declared in a kernel: one instance for the group that is running
#ifdef GPUEMU_RACE
#define __shared__ static __attribute__((section("gpuemu_shared")))
#else
#define __shared__ static
#endif
// __syncwarp(): all threads of a warp (32 consecutive threads of the block).  Modelled only for blocks of at
// most one warp, where it is the block barrier; refused otherwise.
namespace gpuemu {
  inline void cudaSyncWarp() {
    const WorkItem &w = cur();
    if (w.lsize[0] * w.lsize[1] * w.lsize[2] > 32) {
      throw launch_error("__syncwarp() in a block of more than one warp is not modelled");
    }
    barrier();
  }
}
#define __syncwarp() gpuemu::cudaSyncWarp()
// memory fences order memory accesses of the calling thread; they do not synchronise execution
inline void __threadfence_block() {}
inline void __threadfence() {}
// Atomic functions with the signatures of the CUDA C++ Programming Guide (B.14), nothing else: a
// translation calling them with other argument lists does not compile.
#define GPUEMU_ATOMIC_RMW(T, name, expr) \
  inline T name(T *address, T val) { return gpuemu::atomicRmw(address, [=](T old) { return (T) (expr); }); }
GPUEMU_ATOMIC_RMW(int, atomicAdd, (unsigned int) old + (unsigned int) val)
GPUEMU_ATOMIC_RMW(unsigned int, atomicAdd, old + val)
GPUEMU_ATOMIC_RMW(unsigned long long, atomicAdd, old + val)
GPUEMU_ATOMIC_RMW(float, atomicAdd, old + val)
GPUEMU_ATOMIC_RMW(double, atomicAdd, old + val)
GPUEMU_ATOMIC_RMW(int, atomicSub, (unsigned int) old - (unsigned int) val)
GPUEMU_ATOMIC_RMW(unsigned int, atomicSub, old - val)
GPUEMU_ATOMIC_RMW(int, atomicExch, val)
GPUEMU_ATOMIC_RMW(unsigned int, atomicExch, val)
GPUEMU_ATOMIC_RMW(unsigned long long, atomicExch, val)
GPUEMU_ATOMIC_RMW(float, atomicExch, val)
GPUEMU_ATOMIC_RMW(int, atomicMin, (val < old ? val : old))
GPUEMU_ATOMIC_RMW(unsigned int, atomicMin, (val < old ? val : old))
GPUEMU_ATOMIC_RMW(int, atomicMax, (val > old ? val : old))
GPUEMU_ATOMIC_RMW(unsigned int, atomicMax, (val > old ? val : old))
GPUEMU_ATOMIC_RMW(unsigned int, atomicInc, (old >= val ? 0u : old + 1u))
GPUEMU_ATOMIC_RMW(unsigned int, atomicDec, ((old == 0u || old > val) ? val : old - 1u))
GPUEMU_ATOMIC_RMW(int, atomicAnd, old & val)
GPUEMU_ATOMIC_RMW(unsigned int, atomicAnd, old & val)
GPUEMU_ATOMIC_RMW(unsigned long long, atomicAnd, old & val)
GPUEMU_ATOMIC_RMW(int, atomicOr, old | val)
GPUEMU_ATOMIC_RMW(unsigned int, atomicOr, old | val)
GPUEMU_ATOMIC_RMW(unsigned long long, atomicOr, old | val)
GPUEMU_ATOMIC_RMW(int, atomicXor, old ^ val)
GPUEMU_ATOMIC_RMW(unsigned int, atomicXor, old ^ val)
GPUEMU_ATOMIC_RMW(unsigned long long, atomicXor, old ^ val)
#undef GPUEMU_ATOMIC_RMW
#endif

// launch an emulated kernel: for every work-item call fn(args...)
#define GPUEMU_GRID_ENTRY(entryName, callExpr)                                        \
  extern "C" void entryName(void **args, const size_t outer[3], const size_t inner[3]) { \
    gpuemu::runGrid(outer, inner, [&]() { callExpr; });                                 \
  }

#endif
