// gpuemu stub for CUDA (and HIP) device source - force-include it (-include gpuemu/cuda.h) in front of
// the translated source; that TU must contain nothing else but the emulated device code and its
// Entry trampolines.  See ../gpuemu.hpp for the launch model.
#ifndef VERIF_GPUEMU_CUDA_H
#define VERIF_GPUEMU_CUDA_H

#include "../gpuemu.hpp"

struct uint3 { unsigned int x, y, z; };
struct dim3  { unsigned int x, y, z; };

namespace gpuemu {
  inline uint3 cudaBlockIdx()  { const WorkItem &w = cur(); uint3 r = {(unsigned) w.group[0], (unsigned) w.group[1], (unsigned) w.group[2]}; return r; }
  inline uint3 cudaThreadIdx() { const WorkItem &w = cur(); uint3 r = {(unsigned) w.local[0], (unsigned) w.local[1], (unsigned) w.local[2]}; return r; }
  inline dim3  cudaBlockDim()  { const WorkItem &w = cur(); dim3 r = {(unsigned) w.lsize[0], (unsigned) w.lsize[1], (unsigned) w.lsize[2]}; return r; }
  inline dim3  cudaGridDim()   { const WorkItem &w = cur(); dim3 r = {(unsigned) w.ngroups[0], (unsigned) w.ngroups[1], (unsigned) w.ngroups[2]}; return r; }
}

// built-in variables have type `const uint3` / `const dim3` with unsigned int members, as in CUDA
#define blockIdx  (gpuemu::cudaBlockIdx())
#define threadIdx (gpuemu::cudaThreadIdx())
#define blockDim  (gpuemu::cudaBlockDim())
#define gridDim   (gpuemu::cudaGridDim())

#define __global__
#define __device__
#define __host__
#define __forceinline__ inline
#define __launch_bounds__(...)
#define __syncthreads() gpuemu::barrier()
// __shared__ / __constant__ are deliberately NOT defined here: per-group storage belongs to the
// fiber-executor extension; a kernel using them does not compile against this minimal stub.

// launch an emulated kernel: for every work-item call fn(args...)
#define GPUEMU_GRID_ENTRY(entryName, callExpr)                                        \
  extern "C" void entryName(void **args, const size_t outer[3], const size_t inner[3]) { \
    gpuemu::runGrid(outer, inner, [&]() { callExpr; });                                 \
  }

#endif
