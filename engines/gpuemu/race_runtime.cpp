// gpuemu race pass (TRUSTED BASE): conflict monitor for translated *device* code.
//
// The device TU is compiled with `-O0 -fsanitize=thread -DGPUEMU_WORKGROUP -DGPUEMU_RACE -c` (gpuemu.py:
// device_cmd(..., race=True)): every memory access of the translated kernel becomes a call of __tsan_read<N> /
// __tsan_write<N>, every atomic operation of the stubs (gpuemu::atomicRmw) a call of __tsan_atomic<N>_*.  This file
// defines those symbols (the executable is linked WITHOUT -fsanitize=thread) and records, per launch, which
// work-item touched which byte in which barrier phase.
//
// Documented launch model: the work-items of a launch run concurrently; the only ordering inside a launch is the
// work-group barrier, which orders the accesses of the items of ONE group before it with those after it.  Hence
//   two accesses of different work-items of one launch to overlapping bytes, at least one a write, not both atomic,
//   are a DATA RACE unless both items belong to the same group and the accesses lie in different barrier phases.
// This does not depend on the order in which the sequential emulator happened to run the items.
//
// Per-group storage: __shared__/__local/threadgroup variables are function-local statics placed in the section
// "gpuemu_shared" (one object reused by every group of the emulation, but a distinct object per group on a device);
// SYCL group-local blocks are heap blocks freed when the group ends.  Records for both are dropped when a group
// ends, so only accesses of the same group are ever compared.  Fiber stacks (private memory of the items, reused
// from group to group) are not recorded.
#include <cstdio>
#include <cstring>
#include <string>
#include <unordered_map>
#include <vector>

#include "gpuemu/workgroup.hpp"

extern "C" {
  // bounds of the section "gpuemu_shared" (provided by the linker when the section exists)
  extern char __start_gpuemu_shared[] __attribute__((weak));
  extern char __stop_gpuemu_shared[] __attribute__((weak));
}

namespace {
  struct Rec {
    unsigned item;      // linear index of the item in its group
    unsigned group;     // group sequence number
    unsigned phase;
    bool write, atomic;
  };

  struct Monitor {
    std::unordered_map<uintptr_t, std::vector<Rec> > bytes;
    size_t launchSeen;
    std::vector<std::string> reports;
    std::vector<std::string> keys;
    size_t accesses, atomics;
    Monitor() : launchSeen(0), accesses(0), atomics(0) {}
  };

  Monitor& mon() {
    static Monitor m;
    return m;
  }

  struct NamedRange {
    std::string name;
    uintptr_t lo, hi;
  };

  std::vector<NamedRange>& ranges() {
    static std::vector<NamedRange> r;
    return r;
  }

  bool inShared(uintptr_t a) {
    return __start_gpuemu_shared && a >= (uintptr_t) __start_gpuemu_shared && a < (uintptr_t) __stop_gpuemu_shared;
  }

  bool inLocalBlock(uintptr_t a) {
    gpuemu::wg::Group &g = gpuemu::wg::group();
    for (size_t i = 0; i < g.locals.size(); ++i) {
      const uintptr_t lo = (uintptr_t) g.locals[i].ptr;
      if (a >= lo && a < lo + g.locals[i].bytes) return true;
    }
    return false;
  }

  inline bool within(uintptr_t a, const void *p, size_t n) {
    return a >= (uintptr_t) p && a < (uintptr_t) p + n;
  }

  // private memory of the items (fiber stacks) and the emulator's own state (inline emulator code in the device TU
  // is instrumented too): never part of the translated kernel's data
  bool emulatorMemory(uintptr_t a) {
    gpuemu::wg::Group &g = gpuemu::wg::group();
    for (size_t i = 0; i < g.pool.size(); ++i) {
      if (within(a, g.pool[i]->map, g.pool[i]->mapSize) || within(a, g.pool[i], sizeof(gpuemu::wg::Fiber))) return true;
    }
    if (within(a, &g, sizeof(g)) || within(a, &gpuemu::cur(), sizeof(gpuemu::WorkItem))
        || within(a, &gpuemu::stats(), sizeof(gpuemu::Stats)) || within(a, &gpuemu::workgroupStats(), sizeof(gpuemu::WorkgroupStats))
        || within(a, &gpuemu::limits(), sizeof(gpuemu::Limits))
        || within(a, &gpuemu::groupExecutor(), sizeof(gpuemu::GroupExecutor)) || within(a, &gpuemu::barrierFn(), sizeof(gpuemu::BarrierFn))) {
      return true;
    }
    if (g.locals.capacity() && within(a, g.locals.data(), g.locals.capacity() * sizeof(gpuemu::wg::LocalBlock))) return true;
    if (g.pool.capacity() && within(a, g.pool.data(), g.pool.capacity() * sizeof(gpuemu::wg::Fiber*))) return true;
    return false;
  }

  std::string describe(uintptr_t a) {
    if (inShared(a) || inLocalBlock(a)) return "group-shared";
    std::vector<NamedRange> &r = ranges();
    for (size_t i = 0; i < r.size(); ++i) {
      if (a >= r[i].lo && a < r[i].hi) return r[i].name;
    }
    return "other";
  }

  void groupEnd() {
    // the per-group storage of the group that just finished is gone
    Monitor &m = mon();
    for (std::unordered_map<uintptr_t, std::vector<Rec> >::iterator it = m.bytes.begin(); it != m.bytes.end(); ) {
      if (inShared(it->first) || inLocalBlock(it->first)) it = m.bytes.erase(it);
      else ++it;
    }
  }

  void access(const volatile void *p, size_t n, bool write, bool atomic) {
    gpuemu::wg::Group &g = gpuemu::wg::group();
    if (!g.active || g.running == size_t(-1)) return;      // emulator / host code, not a work-item
    Monitor &m = mon();
    if (g.groupEndHook != groupEnd) g.groupEndHook = groupEnd;
    const size_t launch = gpuemu::stats().launches;
    if (launch != m.launchSeen) {                             // a new launch: everything before it is ordered with it
      m.launchSeen = launch;
      m.bytes.clear();
    }
    const uintptr_t a = (uintptr_t) p;
    if (emulatorMemory(a)) return;
    ++m.accesses;
    m.atomics += atomic;
    Rec me;
    me.item = (unsigned) g.running;
    me.group = (unsigned) g.groupSeq;
    me.phase = (unsigned) g.phase;
    me.write = write;
    me.atomic = atomic;
    for (size_t i = 0; i < n; ++i) {
      std::vector<Rec> &v = m.bytes[a + i];
      bool known = false;
      for (size_t k = 0; k < v.size(); ++k) {
        const Rec &o = v[k];
        if (o.item == me.item && o.group == me.group) {
          known = known || (o.phase == me.phase && o.write == me.write && o.atomic == me.atomic);
          continue;                                           // the same work-item
        }
        if (!(o.write || me.write)) continue;
        if (o.atomic && me.atomic) continue;
        if (o.group == me.group && o.phase != me.phase) continue;   // ordered by the barrier
        const std::string where = describe(a + i);
        const std::string kind = std::string(o.atomic ? "atomic" : "plain") + (o.write ? "w" : "r") + "-" +
                                 (me.atomic ? "atomic" : "plain") + (me.write ? "w" : "r");
        const std::string scope = (o.group == me.group) ? "same-group" : "different-groups";
        const std::string key = where + " " + kind + " " + scope;
        bool seen = false;
        for (size_t q = 0; q < m.keys.size(); ++q) seen = seen || (m.keys[q] == key);
        if (!seen) {
          m.keys.push_back(key);
          m.reports.push_back(key);
        }
      }
      if (!known) v.push_back(me);
    }
  }
}

// ---- interface for the harness (C linkage, looked up through weak references)
extern "C" {
  void gpuemu_race_reset() {
    Monitor &m = mon();
    m.bytes.clear();
    m.reports.clear();
    m.keys.clear();
    m.accesses = m.atomics = 0;
    ranges().clear();
  }

  void gpuemu_race_add_range(const char *name, const void *ptr, size_t bytes) {
    NamedRange r;
    r.name = name;
    r.lo = (uintptr_t) ptr;
    r.hi = r.lo + bytes;
    ranges().push_back(r);
  }

  // "<where> <kindA>-<kindB> <scope>; ..." (empty when no race was seen since the last reset)
  const char* gpuemu_race_report() {
    static std::string text;
    text.clear();
    Monitor &m = mon();
    for (size_t i = 0; i < m.reports.size(); ++i) {
      if (i) text += "; ";
      text += m.reports[i];
    }
    return text.c_str();
  }

  size_t gpuemu_race_accesses() { return mon().accesses; }
  size_t gpuemu_race_atomics() { return mon().atomics; }

  // ---- TSan instrumentation callbacks
  void __tsan_init() {}
  void __tsan_func_entry(void *pc) { (void) pc; }
  void __tsan_func_exit() {}
  void __tsan_vptr_update(void **vptr, void *val) { (void) val; access(vptr, sizeof(void*), true, false); }
  void __tsan_vptr_read(void **vptr) { access(vptr, sizeof(void*), false, false); }
  void __tsan_read_range(void *p, unsigned long n) { access(p, n, false, false); }
  void __tsan_write_range(void *p, unsigned long n) { access(p, n, true, false); }

#define GPUEMU_RW(N) \
  void __tsan_read##N(void *p) { access(p, N, false, false); } \
  void __tsan_write##N(void *p) { access(p, N, true, false); } \
  void __tsan_unaligned_read##N(void *p) { access(p, N, false, false); } \
  void __tsan_unaligned_write##N(void *p) { access(p, N, true, false); } \
  void __tsan_read##N##_pc(void *p, void *pc) { (void) pc; access(p, N, false, false); } \
  void __tsan_write##N##_pc(void *p, void *pc) { (void) pc; access(p, N, true, false); }
  GPUEMU_RW(1) GPUEMU_RW(2) GPUEMU_RW(4) GPUEMU_RW(8) GPUEMU_RW(16)
#undef GPUEMU_RW

  void __tsan_atomic_thread_fence(int mo) { (void) mo; }
  void __tsan_atomic_signal_fence(int mo) { (void) mo; }

#define GPUEMU_ATOMIC_OPS(BITS, T) \
  T __tsan_atomic##BITS##_load(const volatile T *a, int mo) { (void) mo; access(a, sizeof(T), false, true); return *a; } \
  void __tsan_atomic##BITS##_store(volatile T *a, T v, int mo) { (void) mo; access(a, sizeof(T), true, true); *a = v; } \
  T __tsan_atomic##BITS##_exchange(volatile T *a, T v, int mo) { (void) mo; access(a, sizeof(T), true, true); const T o = *a; *a = v; return o; } \
  T __tsan_atomic##BITS##_fetch_add(volatile T *a, T v, int mo) { (void) mo; access(a, sizeof(T), true, true); const T o = *a; *a = (T) (o + v); return o; } \
  T __tsan_atomic##BITS##_fetch_sub(volatile T *a, T v, int mo) { (void) mo; access(a, sizeof(T), true, true); const T o = *a; *a = (T) (o - v); return o; } \
  T __tsan_atomic##BITS##_fetch_and(volatile T *a, T v, int mo) { (void) mo; access(a, sizeof(T), true, true); const T o = *a; *a = (T) (o & v); return o; } \
  T __tsan_atomic##BITS##_fetch_or(volatile T *a, T v, int mo) { (void) mo; access(a, sizeof(T), true, true); const T o = *a; *a = (T) (o | v); return o; } \
  T __tsan_atomic##BITS##_fetch_xor(volatile T *a, T v, int mo) { (void) mo; access(a, sizeof(T), true, true); const T o = *a; *a = (T) (o ^ v); return o; } \
  int __tsan_atomic##BITS##_compare_exchange_strong(volatile T *a, T *c, T v, int mo, int fmo) { \
    (void) mo; (void) fmo; access(a, sizeof(T), true, true); \
    if (*a == *c) { *a = v; return 1; } *c = *a; return 0; } \
  int __tsan_atomic##BITS##_compare_exchange_weak(volatile T *a, T *c, T v, int mo, int fmo) { \
    return __tsan_atomic##BITS##_compare_exchange_strong(a, c, v, mo, fmo); } \
  T __tsan_atomic##BITS##_compare_exchange_val(volatile T *a, T c, T v, int mo, int fmo) { \
    (void) mo; (void) fmo; access(a, sizeof(T), true, true); const T o = *a; if (o == c) *a = v; return o; }
  GPUEMU_ATOMIC_OPS(8, unsigned char)
  GPUEMU_ATOMIC_OPS(16, unsigned short)
  GPUEMU_ATOMIC_OPS(32, unsigned int)
  GPUEMU_ATOMIC_OPS(64, unsigned long long)
#undef GPUEMU_ATOMIC_OPS
}
